// Package c18 decides property C18 (the pause schedule of blocked services is
// in effect exactly when the instant's wall-clock time of day, on its weekday
// in the schedule's time zone, lies in that day's [start, end) range, days with
// daylight-saving transitions included; schedules survive JSON and YAML round
// trips; invalid ranges are rejected) by deterministic simulation: the real
// filtering + client storage + dnsforward + dnsproxy request path in a synctest
// bubble whose fake clock is advanced to generated instants between 2000 and
// 2037 (around range edges, local midnight and the zone's offset transitions),
// with the schedule set through the real admin handler (global) and as a
// per-client schedule, written to YAML and reloaded across restarts; the id
// list is also changed through the deprecated list-only handler (POST
// /control/blocked_services/set), which carries no schedule and must leave the
// configured one alone.  Admin requests of the blocked-services family (update,
// legacy set, get, list, rejected updates) and a DNS query are also run
// OVERLAPPED, as tasks of the seeded cooperative scheduler (mode D: the tree is
// built from a copy whose lock operations are scheduling points; request
// bodies may arrive in pieces with a scheduling point before each): what the
// overlapped requests were answered and what GET get reports afterwards must be
// the result of ONE serial order of them.
//
// The reference is three lines: convert the instant to the zone with package
// time (the trusted zone database), take (weekday, hour, minute, second), and
// compare with the day's range.
package c18

import (
	"bytes"
	"context"
	"encoding/json"
	"fmt"
	"io"
	"log/slog"
	"math"
	"net/http"
	"net/http/httptest"
	"net/netip"
	"os"
	"path/filepath"
	"sort"
	"strconv"
	"strings"
	"sync"
	"testing"
	"time"

	"github.com/AdguardTeam/AdGuardHome/internal/dnsforward"
	"github.com/AdguardTeam/AdGuardHome/internal/filtering"
	"github.com/AdguardTeam/AdGuardHome/internal/home"
	"github.com/AdguardTeam/AdGuardHome/internal/schedule"
	"github.com/AdguardTeam/AdGuardHome/verifsim/dnsnode"
	"github.com/AdguardTeam/AdGuardHome/verifsim/env"
	"github.com/AdguardTeam/AdGuardHome/verifsim/kernel"
	"github.com/AdguardTeam/AdGuardHome/verifsim/model"
	"github.com/AdguardTeam/AdGuardHome/verifsim/sched"
	"github.com/AdguardTeam/urlfilter/rules"
	"github.com/miekg/dns"
	"gopkg.in/yaml.v3"
	"pgregory.net/rapid"
)

// ---- scenario ------------------------------------------------------------------

// Day is the pause range of one weekday in whole minutes from 00:00; S == E == 0
// means "no pause on that day".
type Day struct {
	S int `json:"s"`
	E int `json:"e"`
}

// Sched is one blocked-services configuration: services, zone, weekly ranges
// (index = time.Weekday).
type Sched struct {
	Zone string   `json:"tz"`
	Week [7]Day   `json:"week"`
	IDs  []string `json:"ids"`
}

// Bad is an invalid serialised schedule.  Start / End are literal texts spliced
// into the document (JSON numbers in milliseconds, or YAML durations).
type Bad struct {
	Form  string `json:"form"` // what is wrong, for the log
	Zone  string `json:"tz"`
	Day   int    `json:"day"`
	Start string `json:"start,omitempty"`
	End   string `json:"end,omitempty"`
	// Raw, if set, is the whole request body (syntactically broken documents).
	Raw string `json:"raw,omitempty"`
}

// Op is one generated operation; it is executed when the simulated clock shows
// AtMs (Unix milliseconds).
type Op struct {
	Kind string `json:"k"` // query put legacy_set bad_set bad_put client_set guest_set guest_del bad_client bad_yaml restart par
	AtMs int64  `json:"at"`
	Aim  string `json:"aim,omitempty"` // what the generator aimed the instant at (log only)
	Who  string `json:"who,omitempty"` // query: global | client | guest
	Name string `json:"name,omitempty"`
	S    *Sched `json:"sched,omitempty"`
	// NoSched: the request carries the ids of S and NO schedule (put: the
	// optional "schedule" member is left out; guest_set: a client is added
	// without "blocked_services_schedule"): the schedule is then empty, i.e.
	// never in effect.
	NoSched bool `json:"nosched,omitempty"`
	Bad     *Bad `json:"bad,omitempty"`
	// IDs is the list of the deprecated list-only API (legacy_set); it may be
	// empty.
	IDs []string `json:"ids,omitempty"`
	// par: the requests that overlap, the scheduler's seed and its preemption
	// probability in percent.
	Par  []Part `json:"par,omitempty"`
	Seed uint64 `json:"seed,omitempty"`
	Pct  int    `json:"pct,omitempty"`
}

// Part is one of the overlapped requests of a par operation.
type Part struct {
	Kind string   `json:"k"` // put legacy_set bad_put get list query
	S    *Sched   `json:"sched,omitempty"`
	// NoSched: see Op.
	NoSched bool `json:"nosched,omitempty"`
	IDs  []string `json:"ids,omitempty"`
	Bad  *Bad     `json:"bad,omitempty"`
	Who  string   `json:"who,omitempty"`
	Name string   `json:"name,omitempty"`
	// Chunk > 0: the request body reaches the handler in pieces of at most
	// this many bytes, with a scheduling point before each piece (a slow
	// upload); 0: at once.
	Chunk int `json:"chunk,omitempty"`
}

// Scenario is one case.
type Scenario struct {
	Global Sched `json:"global"`
	Client Sched `json:"client"`
	Ops    []Op  `json:"ops"`
}

const (
	globalAddr = "192.0.2.1"
	clientAddr = "192.0.2.2"
	clientName = "kid"
	// The second persistent client does not exist at first: it is added,
	// updated and deleted through the real clients HTTP handlers of package
	// home.  Until it exists its address is an unknown client (global
	// configuration).
	guestAddr = "192.0.2.3"
	guestName = "guest"
	// aliveGap: a gap longer than this between two operations is spent with the
	// node shut down (configuration written before, reloaded after): the
	// filter-update loop of a live node ticks once an hour, and decades of idle
	// ticks per case would only burn the budget.
	aliveGap = 60 * 24 * time.Hour
)

var (
	dayNames   = [7]string{"sun", "mon", "tue", "wed", "thu", "fri", "sat"}
	services   = []string{"9gag", "4chan"}
	queryNames = []string{"9gag.com", "4chan.org", "other.example", "9gag.com", "4chan.org", "9gag.com"}
	// favoured zones: odd offsets, transitions at local midnight, 30-minute and
	// 2-hour DST, a skipped calendar day, Ramadan rules, plus everyday ones.
	favoured = []string{
		"America/Havana", "America/Santiago", "Asia/Beirut", "America/Asuncion", "Atlantic/Azores",
		"America/Sao_Paulo", "Asia/Tehran", "Asia/Amman", "Asia/Damascus", "Asia/Gaza", "Africa/Cairo",
		"America/Scoresbysund", "Australia/Lord_Howe", "Asia/Kolkata", "Asia/Kathmandu", "Australia/Eucla",
		"Pacific/Chatham", "America/St_Johns", "Pacific/Apia", "Pacific/Kiritimati", "Europe/London",
		"America/New_York", "Europe/Moscow", "Africa/Casablanca", "Antarctica/Troll", "Europe/Lisbon",
		"America/Godthab", "Australia/Adelaide", "UTC", "Cuba", "Chile/Continental", "Iran",
	}
)

// ---- zone database (generator side; outside the bubble) -------------------------

const zoneRoot = "/usr/share/zoneinfo"

type zoneInfo struct {
	loc   *time.Location
	trans []int64 // Unix seconds of the first instant with a new UTC offset, 2000..2037
}

var (
	zonesOnce  sync.Once
	zoneNames  []string
	favZones   []string
	zoneCache  = map[string]*zoneInfo{}
	scanFrom   = time.Date(1999, 12, 30, 0, 0, 0, 0, time.UTC)
	scanTo     = time.Date(2038, 1, 2, 0, 0, 0, 0, time.UTC)
	firstDay   = time.Date(2000, 1, 3, 0, 0, 0, 0, time.UTC)
	lastDaySec = time.Date(2037, 12, 28, 0, 0, 0, 0, time.UTC).Unix()
)

// loadZones lists the zones present on the host: every TZif file below
// /usr/share/zoneinfo except the posix/ and right/ copies, sorted by name.
func loadZones() {
	zonesOnce.Do(func() {
		_ = filepath.Walk(zoneRoot, func(p string, fi os.FileInfo, err error) error {
			if err != nil {
				return nil
			}
			rel, _ := filepath.Rel(zoneRoot, p)
			if fi.IsDir() {
				if rel == "posix" || rel == "right" {
					return filepath.SkipDir
				}
				return nil
			}
			if !fi.Mode().IsRegular() && fi.Mode()&os.ModeSymlink == 0 {
				return nil
			}
			if rel == "localtime" || rel == "posixrules" {
				return nil
			}
			f, err := os.Open(p)
			if err != nil {
				return nil
			}
			var magic [4]byte
			_, err = f.Read(magic[:])
			_ = f.Close()
			if err != nil || string(magic[:]) != "TZif" {
				return nil
			}
			if _, err = time.LoadLocation(rel); err != nil {
				return nil
			}
			zoneNames = append(zoneNames, rel)
			return nil
		})
		sort.Strings(zoneNames)
		have := map[string]bool{}
		for _, z := range zoneNames {
			have[z] = true
		}
		for _, z := range favoured {
			if have[z] {
				favZones = append(favZones, z)
			}
		}
		if len(zoneNames) == 0 {
			// No zone database on the host: only what package time knows itself.
			zoneNames = []string{"UTC"}
			favZones = []string{"UTC"}
		}
	})
}

func offsetAt(loc *time.Location, sec int64) int {
	_, off := time.Unix(sec, 0).In(loc).Zone()
	return off
}

// zone returns the location and its offset transitions (found by scanning
// offsets with package time and bisecting to the second).
func zone(name string) *zoneInfo {
	if z := zoneCache[name]; z != nil {
		return z
	}
	loc, err := time.LoadLocation(name)
	if err != nil {
		panic(fmt.Errorf("harness: zone %q: %w", name, err))
	}
	z := &zoneInfo{loc: loc}
	const step = 6 * 3600
	prev := scanFrom.Unix()
	prevOff := offsetAt(loc, prev)
	for s := prev + step; s <= scanTo.Unix(); s += step {
		off := offsetAt(loc, s)
		if off != prevOff {
			lo, hi := prev, s // offset(lo) == prevOff, offset(hi) != prevOff
			for hi-lo > 1 {
				mid := lo + (hi-lo)/2
				if offsetAt(loc, mid) == prevOff {
					lo = mid
				} else {
					hi = mid
				}
			}
			z.trans = append(z.trans, hi)
			off = offsetAt(loc, s)
		}
		prev, prevOff = s, off
	}
	zoneCache[name] = z
	return z
}

// ---- generator -----------------------------------------------------------------

func genZone(t *rapid.T, label string) string {
	if rapid.IntRange(0, 9).Draw(t, label+"_fav") < 6 {
		return rapid.SampledFrom(favZones).Draw(t, label)
	}
	return rapid.SampledFrom(zoneNames).Draw(t, label)
}

func genDay(t *rapid.T) Day {
	switch rapid.IntRange(0, 11).Draw(t, "day_kind") {
	case 0, 1:
		return Day{} // empty
	case 2, 3:
		return Day{0, 1440} // full day
	case 4:
		return Day{0, rapid.IntRange(1, 1440).Draw(t, "end")} // from 00:00
	case 5:
		return Day{rapid.IntRange(0, 1439).Draw(t, "start"), 1440} // until 24:00
	case 6, 7:
		// Small hours, where most zones change their clocks.
		s := rapid.IntRange(0, 299).Draw(t, "start_small")
		return Day{s, rapid.IntRange(s+1, 360).Draw(t, "end_small")}
	case 8:
		// Late evening.
		s := rapid.IntRange(1260, 1439).Draw(t, "start_late")
		return Day{s, rapid.IntRange(s+1, 1440).Draw(t, "end_late")}
	case 9:
		// Quarter-hour edges (zones with 30/45-minute offsets).
		s := rapid.IntRange(0, 94).Draw(t, "start_q")
		return Day{s * 15, rapid.IntRange(s+1, 96).Draw(t, "end_q") * 15}
	default:
		s := rapid.IntRange(0, 1439).Draw(t, "start")
		return Day{s, rapid.IntRange(s+1, 1440).Draw(t, "end")}
	}
}

func genSched(t *rapid.T, zoneName string) Sched {
	s := Sched{Zone: zoneName}
	switch rapid.IntRange(0, 9).Draw(t, "week_kind") {
	case 0:
		// never paused
	case 1:
		for i := range s.Week {
			s.Week[i] = Day{0, 1440}
		}
	case 2:
		d := genDay(t)
		for i := range s.Week {
			s.Week[i] = d
		}
	default:
		for i := range s.Week {
			s.Week[i] = genDay(t)
		}
	}
	s.IDs = rapid.SampledFrom([][]string{{"9gag"}, {"9gag", "4chan"}, {"4chan", "9gag"}, {"9gag"}}).Draw(t, "ids")
	return s
}

var (
	edgeDeltasMs  = []int64{-60_000, -1000, -1, 0, 0, 1000, 59_000, 60_000}
	transDeltasMs = []int64{-3_601_000, -3_600_000, -1_800_000, -61_000, -60_000, -1000, -1, 0, 0, 1000, 60_000, 1_799_000, 1_800_000, 3_599_000, 3_600_000, 3_601_000, 7_200_000}
)

type anchor struct {
	y     int
	m     time.Month
	d     int
	loc   *time.Location
	trans int64 // the transition this anchor was derived from, or 0
	noon  int64
}

func genAnchor(t *rapid.T, pool []*zoneInfo) anchor {
	z := pool[rapid.IntRange(0, len(pool)-1).Draw(t, "anchor_zone")]
	a := anchor{loc: z.loc}
	var ref time.Time
	if len(z.trans) > 0 && rapid.IntRange(0, 9).Draw(t, "anchor_kind") < 7 {
		a.trans = z.trans[rapid.IntRange(0, len(z.trans)-1).Draw(t, "anchor_trans")]
		switch rapid.IntRange(0, 9).Draw(t, "anchor_side") {
		case 0:
			// The local day that ends with the transition (differs from the next
			// case when the clocks change at midnight).
			ref = time.Unix(a.trans-1, 0).In(z.loc)
		case 1:
			ref = time.Unix(a.trans+86400, 0).In(z.loc) // the day after
		default:
			ref = time.Unix(a.trans, 0).In(z.loc)
		}
	} else {
		days := (lastDaySec - firstDay.Unix()) / 86400
		ref = time.Unix(firstDay.Unix()+86400*int64(rapid.IntRange(0, int(days)).Draw(t, "anchor_day"))+43200, 0).In(z.loc)
	}
	a.y, a.m, a.d = ref.Date()
	a.noon = time.Date(a.y, a.m, a.d, 12, 0, 0, 0, z.loc).Unix()
	return a
}

// aimInstant draws one instant (Unix ms) on or around the anchor's local day.
func aimInstant(t *rapid.T, a anchor, scheds []*Sched) (ms int64, aim string) {
	kind := rapid.IntRange(0, 9).Draw(t, "aim")
	switch {
	case kind < 4: // a range edge of that weekday in one of the current schedules
		s := scheds[rapid.IntRange(0, len(scheds)-1).Draw(t, "aim_sched")]
		loc := zone(s.Zone).loc
		dd := a.d + rapid.SampledFrom([]int{0, 0, 0, 0, -1, 1}).Draw(t, "aim_dayoff")
		wd := time.Date(a.y, a.m, dd, 12, 0, 0, 0, loc).Weekday()
		r := s.Week[wd]
		edge := r.S
		if rapid.Bool().Draw(t, "aim_end") {
			edge = r.E
		}
		base := time.Date(a.y, a.m, dd, edge/60, edge%60, 0, 0, loc)
		ms = base.UnixMilli() + rapid.SampledFrom(edgeDeltasMs).Draw(t, "aim_delta")
		if rapid.IntRange(0, 5).Draw(t, "aim_second_pass") == 0 {
			ms += 3_600_000 // the second occurrence of a repeated hour
		}
		return ms, "edge"
	case kind < 6: // local midnight
		dd := a.d + rapid.SampledFrom([]int{0, 0, 1}).Draw(t, "aim_dayoff")
		base := time.Date(a.y, a.m, dd, 0, 0, 0, 0, a.loc)
		return base.UnixMilli() + rapid.SampledFrom(edgeDeltasMs).Draw(t, "aim_delta"), "midnight"
	case kind < 8 && a.trans != 0:
		return a.trans*1000 + rapid.SampledFrom(transDeltasMs).Draw(t, "aim_tdelta"), "transition"
	default: // anywhere on that local day (and a little around it)
		base := time.Date(a.y, a.m, a.d, 0, 0, 0, 0, a.loc)
		return base.UnixMilli() + int64(rapid.IntRange(-3600, 93599).Draw(t, "aim_sec"))*1000 + int64(rapid.SampledFrom([]int{0, 0, 0, 1, 500, 999}).Draw(t, "aim_ms")), "day"
	}
}

func num(ms int64) string { return strconv.FormatInt(ms, 10) }

// genBadJSON draws an invalid JSON range (milliseconds).
func genBadJSON(t *rapid.T) (form, start, end string) {
	const minute, dayMs = 60_000, 86_400_000
	m1 := int64(rapid.IntRange(1, 1380).Draw(t, "bad_m1"))
	m2 := int64(rapid.IntRange(1, 59).Draw(t, "bad_m2"))
	frac := int64(rapid.SampledFrom([]int{1, 500, 1000, 30_000, 59_999}).Draw(t, "bad_frac"))
	switch rapid.IntRange(0, 10).Draw(t, "bad_form") {
	case 0:
		return "negative-start", num(-m2 * minute), num(m1 * minute)
	case 1:
		return "negative-both", num(-(m1 + m2) * minute), num(-m2 * minute)
	case 2:
		return "negative-end", "0", num(-m2 * minute)
	case 3:
		return "inverted", num((m1 + m2) * minute), num(m1 * minute)
	case 4:
		return "end-after-24h", num(m1 * minute), num(dayMs + m2*minute)
	case 5:
		return "start-at-24h", num(dayMs), num(dayMs + m2*minute)
	case 6:
		return "longer-than-24h", "0", num(dayMs + m1*minute)
	case 7:
		return "start-not-whole-minute", num(m1*minute + frac), num((m1 + m2) * minute)
	case 8:
		return "end-not-whole-minute", num(m1 * minute), num((m1+m2)*minute + frac)
	case 9:
		return "fractional-ms", num(m1*minute) + ".5", num((m1 + m2) * minute)
	default:
		return "both-not-whole-minute", num(m1*minute + frac), num((m1+m2)*minute + frac)
	}
}

// genBadYAML draws an invalid YAML range (duration texts).
func genBadYAML(t *rapid.T) (form, start, end string) {
	m1 := rapid.IntRange(1, 1380).Draw(t, "bad_m1")
	m2 := rapid.IntRange(1, 59).Draw(t, "bad_m2")
	d := func(min int) string { return (time.Duration(min) * time.Minute).String() }
	switch rapid.IntRange(0, 6).Draw(t, "bad_yform") {
	case 0:
		return "negative-start", "-" + d(m2), d(m1)
	case 1:
		return "inverted", d(m1 + m2), d(m1)
	case 2:
		return "end-after-24h", d(m1), d(1440 + m2)
	case 3:
		return "longer-than-24h", "0s", d(1440 + m1)
	case 4:
		return "start-not-whole-minute", d(m1) + "30s", d(m1 + m2)
	case 5:
		return "end-not-whole-minute", d(m1), fmt.Sprintf("%dm%dms", m1+m2, rapid.SampledFrom([]int{1, 500, 1500}).Draw(t, "bad_yms"))
	default:
		return "negative-both", "-" + d(m1+m2), "-" + d(m2)
	}
}

// genBadPut draws the invalid document of a PUT update that must be rejected.
func genBadPut(t *rapid.T, zoneName string) *Bad {
	b := &Bad{Zone: zoneName, Day: rapid.IntRange(0, 6).Draw(t, "bad_day")}
	if rapid.IntRange(0, 7).Draw(t, "bad_raw") == 0 {
		b.Form = "broken-document"
		b.Raw = rapid.SampledFrom([]string{
			`{"ids":["9gag"],"schedule":{"time_zone":"UTC","mon":{"start":0,"end":`,
			`{"ids":["9gag"],"schedule":{"time_zone":"UTC","mon":{"start":"one","end":60000}}}`,
			`{"ids":["9gag"],"schedule":{"time_zone":"UTC","mon":[0,60000]}}`,
			`{"ids":["9gag"],"schedule":[]}`,
			`{"ids":["9gag"],"schedule":{"time_zone":"UTC","mon":{"start":1e400,"end":60000}}}`,
		}).Draw(t, "bad_doc")
	} else {
		b.Form, b.Start, b.End = genBadJSON(t)
	}
	return b
}

var (
	legacyLists = [][]string{{"9gag"}, {"4chan"}, {"9gag", "4chan"}, {"4chan", "9gag"}, {}}
	// The first overlapped request is always one that changes the
	// configuration; the others are drawn from the whole family.
	parWrites = []string{"put", "legacy_set"}
	parKinds  = []string{"put", "legacy_set", "put", "legacy_set", "get", "list", "query", "bad_put", "query"}
	parChunks = []int{0, 0, 5, 32, 128}
)

// genPar draws 2-4 requests of the blocked-services family (at most one of
// them a DNS query) that are in progress at the same time.
func genPar(t *rapid.T, zn func() string, cur *[2]*Sched) Op {
	op := Op{Kind: "par", Seed: rapid.Uint64().Draw(t, "par_seed"), Pct: rapid.SampledFrom([]int{20, 50, 80}).Draw(t, "par_pct")}
	n := rapid.IntRange(2, 4).Draw(t, "par_n")
	hasQuery := false
	for j := 0; j < n; j++ {
		kinds := parKinds
		if j == 0 {
			kinds = parWrites
		}
		p := Part{Kind: rapid.SampledFrom(kinds).Draw(t, "par_kind")}
		if p.Kind == "query" && hasQuery {
			p.Kind = "get"
		}
		switch p.Kind {
		case "put":
			s := genSched(t, zn())
			p.S = &s
			p.Chunk = rapid.SampledFrom(parChunks).Draw(t, "par_chunk")
			p.NoSched = rapid.IntRange(0, 5).Draw(t, "nosched") == 0
			// Which of the overlapped updates wins is the scheduler's business;
			// the generator aims the following instants at the last one drawn.
			aimAfterPut(cur, &s, p.NoSched)
		case "legacy_set":
			p.IDs = rapid.SampledFrom(legacyLists).Draw(t, "legacy_ids")
			p.Chunk = rapid.SampledFrom(parChunks).Draw(t, "par_chunk")
			ns := *cur[0]
			ns.IDs = p.IDs
			cur[0] = &ns
		case "bad_put":
			p.Bad = genBadPut(t, zn())
			p.Chunk = rapid.SampledFrom(parChunks).Draw(t, "par_chunk")
		case "query":
			hasQuery = true
			p.Who = "global"
			if rapid.IntRange(0, 3).Draw(t, "who") == 0 {
				p.Who = "client"
			}
			p.Name = rapid.SampledFrom(queryNames).Draw(t, "qname")
		}
		op.Par = append(op.Par, p)
	}
	return op
}

// aimAfterPut moves the generator's aim after an update of the global
// configuration.  An update without a schedule leaves an empty one; the
// instants that follow stay aimed at the ranges that were configured before,
// which is where an empty schedule must be seen not to be in effect.
func aimAfterPut(cur *[2]*Sched, s *Sched, noSched bool) {
	if !noSched {
		cur[0] = s
		return
	}
	ns := *cur[0]
	ns.IDs = s.IDs
	cur[0] = &ns
}

func genConfigOp(t *rapid.T, poolNames []string, cur *[2]*Sched, guest **Sched) Op {
	zn := func() string { return rapid.SampledFrom(poolNames).Draw(t, "op_zone") }
	switch k := rapid.IntRange(0, 119).Draw(t, "config_kind"); {
	case k >= 116:
		// Deleting the second client (nothing happens if it does not exist).
		*guest = nil
		return Op{Kind: "guest_del"}
	case k >= 100:
		// The second client through the clients HTTP API: added if it does not
		// exist (in half of the cases without a schedule), updated otherwise.
		s := genSched(t, zn())
		op := Op{Kind: "guest_set", S: &s}
		if *guest == nil {
			op.NoSched = rapid.Bool().Draw(t, "nosched")
		}
		if op.NoSched {
			e := Sched{Zone: s.Zone, IDs: s.IDs}
			*guest = &e
		} else {
			*guest = &s
		}
		return op
	case k < 20:
		s := genSched(t, zn())
		op := Op{Kind: "put", S: &s, NoSched: rapid.IntRange(0, 5).Draw(t, "nosched") == 0}
		aimAfterPut(cur, &s, op.NoSched)
		return op
	case k < 30:
		// The deprecated list-only API: it carries service ids and nothing else,
		// so the schedule the generator aims at stays the current one.
		ids := rapid.SampledFrom(legacyLists).Draw(t, "legacy_ids")
		ns := *cur[0]
		ns.IDs = ids
		cur[0] = &ns
		return Op{Kind: "legacy_set", IDs: ids}
	case k < 33:
		return Op{Kind: "bad_set", Bad: &Bad{Form: "broken-list", Raw: rapid.SampledFrom([]string{
			`{"ids":["9gag"]}`, `["9gag",`, `"9gag"`, `[1,2]`, `{"ids":["4chan"],"schedule":{"time_zone":"UTC"}}`,
		}).Draw(t, "bad_list")}}
	case k < 42:
		s := genSched(t, zn())
		cur[1] = &s
		return Op{Kind: "client_set", S: &s}
	case k < 54:
		return genPar(t, zn, cur)
	case k < 68:
		return Op{Kind: "bad_put", Bad: genBadPut(t, zn())}
	case k < 74:
		b := &Bad{Zone: zn(), Day: rapid.IntRange(0, 6).Draw(t, "bad_day")}
		b.Form, b.Start, b.End = genBadJSON(t)
		return Op{Kind: "bad_client", Bad: b}
	case k < 82:
		b := &Bad{Zone: zn(), Day: rapid.IntRange(0, 6).Draw(t, "bad_day")}
		b.Form, b.Start, b.End = genBadYAML(t)
		return Op{Kind: "bad_yaml", Bad: b}
	default:
		return Op{Kind: "restart"}
	}
}

// Gen draws a scenario.
func Gen(t *rapid.T, tier string) any {
	loadZones()
	sc := &Scenario{}
	poolNames := []string{genZone(t, "zone0")}
	if rapid.IntRange(0, 2).Draw(t, "two_zones") == 0 {
		poolNames = append(poolNames, genZone(t, "zone1"))
	}
	pool := make([]*zoneInfo, len(poolNames))
	for i, n := range poolNames {
		pool[i] = zone(n)
	}
	sc.Global = genSched(t, poolNames[0])
	sc.Client = genSched(t, poolNames[len(poolNames)-1])
	g, cl := sc.Global, sc.Client
	cur := [2]*Sched{&g, &cl}
	var guest *Sched

	maxInst, maxAnchors := 30, 8
	if tier == "thorough" {
		maxInst, maxAnchors = 50, 12
	}
	nAnch := rapid.IntRange(2, maxAnchors).Draw(t, "n_anchors")
	anchors := make([]anchor, nAnch)
	for i := range anchors {
		anchors[i] = genAnchor(t, pool)
	}
	sort.SliceStable(anchors, func(i, j int) bool { return anchors[i].noon < anchors[j].noon })

	minMs, maxMs := firstDay.UnixMilli(), (lastDaySec+3*86400)*1000
	cursor := minMs
	queries := 0
	for ai, a := range anchors {
		left := nAnch - ai - 1
		var cfg []Op
		if rapid.IntRange(0, 9).Draw(t, "has_config") < 4 {
			cfg = append(cfg, genConfigOp(t, poolNames, &cur, &guest))
		}
		n := rapid.IntRange(1, 6).Draw(t, "n_instants")
		if need := 5 - queries - left; n < need {
			n = need // at least five instants per case
		}
		if queries+n > maxInst {
			n = maxInst - queries
		}
		type inst struct {
			ms  int64
			aim string
		}
		var ins []inst
		for i := 0; i < n; i++ {
			aimAt := cur[:]
			if guest != nil && guest.Week != ([7]Day{}) {
				aimAt = append(append([]*Sched(nil), aimAt...), guest)
			}
			ms, aim := aimInstant(t, a, aimAt)
			if ms < minMs {
				ms = minMs
			}
			if ms > maxMs {
				ms = maxMs
			}
			ins = append(ins, inst{ms, aim})
		}
		sort.SliceStable(ins, func(i, j int) bool { return ins[i].ms < ins[j].ms })
		mid := -1
		if len(ins) > 1 && rapid.IntRange(0, 9).Draw(t, "mid_config") < 2 {
			mid = rapid.IntRange(1, len(ins)-1).Draw(t, "mid_pos")
		}
		for i, in := range ins {
			if in.ms <= cursor {
				// Anchors of neighbouring days may overlap: keep time strictly
				// increasing.
				in.ms = cursor + int64(rapid.SampledFrom([]int{1, 1000, 60_000}).Draw(t, "bump"))
			}
			cursor = in.ms
			if i == 0 {
				for _, op := range cfg {
					op.AtMs = in.ms
					sc.Ops = append(sc.Ops, op)
				}
			}
			if i == mid {
				op := genConfigOp(t, poolNames, &cur, &guest)
				op.AtMs = in.ms
				sc.Ops = append(sc.Ops, op)
			}
			who := "global"
			switch rapid.IntRange(0, 3).Draw(t, "who") {
			case 0:
				who = "client"
			case 1:
				who = "guest"
			}
			sc.Ops = append(sc.Ops, Op{Kind: "query", AtMs: in.ms, Aim: in.aim, Who: who, Name: rapid.SampledFrom(queryNames).Draw(t, "qname")})
			queries++
		}
	}
	return sc
}

// ---- reference -----------------------------------------------------------------

// pausedAt is the statement: the schedule is in effect at t iff t's wall-clock
// time of day in the zone lies in [start, end) of t's local weekday.
func pausedAt(loc *time.Location, w [7]Day, t time.Time) bool {
	lt := t.In(loc)
	r := w[lt.Weekday()]
	sec := lt.Hour()*3600 + lt.Minute()*60 + lt.Second()
	return r.S*60 <= sec && sec < r.E*60
}

// elapsedHypothesis is NOT part of the oracle.  It is used only to name the
// class of a mismatch: "the implementation behaved as if the time of day were
// the time elapsed since the zone's midnight", which differs from the
// wall-clock time of day exactly on days with an offset change.
func elapsedHypothesis(loc *time.Location, w [7]Day, t time.Time) bool {
	lt := t.In(loc)
	r := w[lt.Weekday()]
	y, m, d := lt.Date()
	off := lt.Sub(time.Date(y, m, d, 0, 0, 0, 0, loc))
	return time.Duration(r.S)*time.Minute <= off && off < time.Duration(r.E)*time.Minute
}

// invalidPerStatement says whether a [start, end) range given in milliseconds
// must be rejected: negative, inverted, longer than / beyond 24h, or not whole
// minutes.
func invalidPerStatement(startMs, endMs float64) bool {
	const dayMs = 86_400_000
	whole := func(x float64) bool { return math.Mod(x, 60_000) == 0 }
	switch {
	case startMs < 0 || endMs < 0:
		return true
	case startMs > endMs:
		return true
	case endMs > dayMs || endMs-startMs > dayMs:
		return true
	case !whole(startMs) || !whole(endMs):
		return true
	}
	return false
}

// ---- run -----------------------------------------------------------------------

type mstate struct {
	s   Sched
	loc *time.Location
}

type runner struct {
	sc       *Scenario
	c        *kernel.Ctx
	dir      string
	n        *dnsnode.Node
	up       *env.Upstream
	glob     mstate
	cli      mstate
	// guest: the second persistent client, if hasGuest.
	guest    mstate
	hasGuest bool
	// loaded is the global configuration the running node was started from.
	loaded mstate
	// the real clients HTTP handlers of package home, bound to the node's storage.
	addH, updH, delH http.HandlerFunc
	svcRules map[string][]*rules.NetworkRule
	locs     map[string]*time.Location
	modified int
	// routes: the admin handlers of the running node by "METHOD path".
	routes map[string]http.HandlerFunc
	// abandon: a deadlock was found; the parked tasks hold the node's locks.
	abandon bool
}

func (r *runner) loc(name string) (*time.Location, error) {
	if l := r.locs[name]; l != nil {
		return l, nil
	}
	l, err := time.LoadLocation(name)
	if err != nil {
		return nil, fmt.Errorf("harness: zone %q of the scenario is not on this host: %w", name, err)
	}
	r.locs[name] = l
	return l, nil
}

func schedJSON(s *Sched) map[string]any {
	out := map[string]any{"time_zone": s.Zone}
	for i, name := range dayNames {
		if d := s.Week[i]; d != (Day{}) {
			out[name] = map[string]any{"start": int64(d.S) * 60_000, "end": int64(d.E) * 60_000}
		}
	}
	return out
}

// schedYAML writes the schedule the way a configuration file spells it.
func schedYAML(s *Sched, indent string) string {
	var b strings.Builder
	fmt.Fprintf(&b, "%stime_zone: %s\n", indent, strconv.Quote(s.Zone))
	for i, name := range dayNames {
		d := s.Week[i]
		if d == (Day{}) && i%2 == 0 {
			continue // a missing day is an empty range; odd days spell it out
		}
		fmt.Fprintf(&b, "%s%s:\n%s  start: %s\n%s  end: %s\n", indent, name, indent, time.Duration(d.S)*time.Minute, indent, time.Duration(d.E)*time.Minute)
	}
	return b.String()
}

func idsYAML(ids []string) string { return "[" + strings.Join(ids, ", ") + "]" }

// initialYAML spells the parts of AdGuardHome.yaml that carry blocked-services
// schedules (the filtering section and the persistent clients) the way a
// configuration file does.
func (r *runner) initialYAML() string {
	var b strings.Builder
	b.WriteString("filtering:\n  blocked_services:\n    schedule:\n")
	b.WriteString(schedYAML(&r.glob.s, "      "))
	fmt.Fprintf(&b, "    ids: %s\n", idsYAML(r.glob.s.IDs))
	fmt.Fprintf(&b, "clients:\n  persistent:\n    - name: %s\n      ids: [%s]\n      use_global_settings: true\n      use_global_blocked_services: false\n      blocked_services:\n        schedule:\n", clientName, clientAddr)
	b.WriteString(schedYAML(&r.cli.s, "          "))
	fmt.Fprintf(&b, "        ids: %s\n", idsYAML(r.cli.s.IDs))
	return b.String()
}

// startFromYAML loads a configuration text the way home does at start (the
// text is decoded over the defaults of a freshly started process, the clients
// are converted by the real clientObject.toPersistent) and assembles a node
// from it.
func (r *runner) startFromYAML(text []byte, what string) error {
	flt, loaded, err := home.VerifSchedLoadConfig(context.Background(), slog.New(slog.DiscardHandler), text)
	if err != nil {
		return kernel.Violationf("yaml-roundtrip-rejected", "%s: configuration with valid schedules does not load: %v\n%s", what, err, text)
	}
	wantClients := 1
	if r.hasGuest {
		wantClients = 2
	}
	if flt == nil || flt.BlockedServices == nil || len(loaded) != wantClients {
		return kernel.Violationf("yaml-roundtrip-lost", "%s: blocked services or clients missing after loading (%d clients, want %d):\n%s", what, len(loaded), wantClients, text)
	}
	for _, p := range loaded {
		if p.BlockedServices == nil {
			return kernel.Violationf("yaml-roundtrip-lost", "%s: client %q loaded without blocked services:\n%s", what, p.Name, text)
		}
		if !p.UseOwnBlockedServices || p.UseOwnSettings {
			return fmt.Errorf("harness: client %q loaded with own blocked services=%v, own settings=%v", p.Name, p.UseOwnBlockedServices, p.UseOwnSettings)
		}
	}
	cfg := &dnsnode.Config{Dir: r.dir, Upstream: r.up, UpTimeout: 2 * time.Second, ListServer: env.NewListServer()}
	cfg.Filtering = filtering.Config{
		BlockingMode: filtering.BlockingModeDefault, BlockedResponseTTL: 10,
		ProtectionEnabled: true, FilteringEnabled: true,
		// 0 would disable list updates but makes the update loop wake up every
		// 5 s forever; with an interval and no lists it settles at once an hour.
		FiltersUpdateIntervalHours: 24, CacheTime: 30,
		BlockedServices: flt.BlockedServices,
	}
	cfg.InitialClients = loaded
	cfg.DNS = dnsforward.Config{CacheSize: 0, UpstreamMode: dnsforward.UpstreamModeLoadBalance}
	n, err := dnsnode.New(cfg)
	if err != nil {
		return err
	}
	r.n = n
	r.routes = map[string]http.HandlerFunc{}
	for _, rt := range n.Mux.Routes() {
		r.routes[rt.Method+" "+rt.Path] = rt.Handler
	}
	r.modified = int(n.Modified.Load())
	r.addH, r.updH, r.delH = home.VerifSchedClientsHandlers(n.Clients)
	r.loaded = r.glob
	kernel.Wait()
	return nil
}

// clientsAPI calls one of home's clients handlers in-process.
func (r *runner) clientsAPI(h http.HandlerFunc, path string, body []byte) (code int, resp []byte, err error) {
	req := httptest.NewRequest(http.MethodPost, path, bytes.NewReader(body)).WithContext(context.Background())
	req.Header.Set("Content-Type", "application/json")
	rec := httptest.NewRecorder()
	defer func() {
		if v := recover(); v != nil {
			err = &env.HandlerPanic{Route: "POST " + path, Value: v}
		}
	}()
	h(rec, req)
	return rec.Code, rec.Body.Bytes(), nil
}

func (r *runner) stop() {
	if r.abandon {
		return
	}
	if r.n != nil {
		r.n.Close()
		r.n = nil
		kernel.Wait()
	}
}

func (r *runner) loadServiceRules() error {
	code, body, err := r.n.Mux.Do("GET", "/control/blocked_services/all", nil)
	if err != nil || code != 200 {
		return fmt.Errorf("harness: blocked_services/all: %d %v", code, err)
	}
	var resp struct {
		BlockedServices []struct {
			ID    string   `json:"id"`
			Rules []string `json:"rules"`
		} `json:"blocked_services"`
	}
	if err = json.Unmarshal(body, &resp); err != nil {
		return err
	}
	r.svcRules = map[string][]*rules.NetworkRule{}
	for _, s := range resp.BlockedServices {
		r.svcRules[s.ID] = model.ServiceRules(s.Rules)
	}
	for _, id := range services {
		if len(r.svcRules[id]) == 0 {
			return fmt.Errorf("harness: service %q has no rules in this tree", id)
		}
	}
	return nil
}

type dayJSON struct {
	Start *float64 `json:"start"`
	End   *float64 `json:"end"`
}

// compareJSON checks a serialised (JSON) schedule against the model.
func compareJSON(raw json.RawMessage, want *Sched) string {
	var m map[string]json.RawMessage
	if err := json.Unmarshal(raw, &m); err != nil {
		return fmt.Sprintf("schedule is not an object: %v", err)
	}
	var tz string
	// Zone "": an empty schedule that was not given by anybody (a request
	// without one); the statement names no zone for it, and none matters.
	if err := json.Unmarshal(m["time_zone"], &tz); err != nil || (tz != want.Zone && want.Zone != "") {
		return fmt.Sprintf("time_zone %s, want %q", m["time_zone"], want.Zone)
	}
	delete(m, "time_zone")
	for i, name := range dayNames {
		d := want.Week[i]
		rawDay, ok := m[name]
		delete(m, name)
		if !ok || string(rawDay) == "null" {
			if d != (Day{}) {
				return fmt.Sprintf("%s missing, want %d..%d min", name, d.S, d.E)
			}
			continue
		}
		var dj dayJSON
		if err := json.Unmarshal(rawDay, &dj); err != nil || dj.Start == nil || dj.End == nil {
			return fmt.Sprintf("%s: %s", name, rawDay)
		}
		if *dj.Start != float64(d.S)*60_000 || *dj.End != float64(d.E)*60_000 {
			return fmt.Sprintf("%s is %v..%v ms, want %d..%d min", name, *dj.Start, *dj.End, d.S, d.E)
		}
	}
	for k := range m {
		return fmt.Sprintf("unexpected key %q", k)
	}
	return ""
}

// compareYAML checks the schedule node of a written configuration.
func compareYAML(node any, want *Sched) string {
	m, ok := node.(map[string]any)
	if !ok {
		return fmt.Sprintf("schedule is %T", node)
	}
	if tz, _ := m["time_zone"].(string); tz != want.Zone && want.Zone != "" {
		return fmt.Sprintf("time_zone %v, want %q", m["time_zone"], want.Zone)
	}
	for i, name := range dayNames {
		d := want.Week[i]
		dn, ok := m[name].(map[string]any)
		if !ok {
			if d != (Day{}) {
				return fmt.Sprintf("%s missing, want %d..%d min", name, d.S, d.E)
			}
			continue
		}
		var got [2]time.Duration
		for j, k := range []string{"start", "end"} {
			s, _ := dn[k].(string)
			v, err := time.ParseDuration(s)
			if err != nil {
				return fmt.Sprintf("%s.%s: %v is not a duration", name, k, dn[k])
			}
			got[j] = v
		}
		if got[0] != time.Duration(d.S)*time.Minute || got[1] != time.Duration(d.E)*time.Minute {
			return fmt.Sprintf("%s is %v..%v, want %d..%d min", name, got[0], got[1], d.S, d.E)
		}
	}
	return ""
}

func sameIDs(a, b []string) bool {
	if len(a) != len(b) {
		return false
	}
	for i := range a {
		if a[i] != b[i] {
			return false
		}
	}
	return true
}

// readBack reads both schedules through the JSON side and compares them with
// the model.
func (r *runner) readBack(what, class string) error {
	code, body, err := r.n.Mux.Do("GET", "/control/blocked_services/get", nil)
	if err != nil {
		if hp, ok := err.(*env.HandlerPanic); ok {
			return kernel.Violationf("api-panic", "%v", hp)
		}
		return err
	}
	if code != http.StatusOK {
		return kernel.Violationf(class, "%s: GET blocked_services/get -> %d %s", what, code, body)
	}
	var got struct {
		Schedule json.RawMessage `json:"schedule"`
		IDs      []string        `json:"ids"`
	}
	if err = json.Unmarshal(body, &got); err != nil {
		return kernel.Violationf(class, "%s: GET blocked_services/get: %v: %s", what, err, body)
	}
	if diff := compareJSON(got.Schedule, &r.glob.s); diff != "" {
		return kernel.Violationf(class, "%s: global schedule read back through the API differs: %s\n  got  %s\n  want %v", what, diff, got.Schedule, r.glob.s)
	}
	if !sameIDs(got.IDs, r.glob.s.IDs) {
		return kernel.Violationf(class, "%s: global ids %v, want %v", what, got.IDs, r.glob.s.IDs)
	}
	// The deprecated list-only view of the same configuration.
	code, body, err = r.n.Mux.Do("GET", "/control/blocked_services/list", nil)
	if err != nil {
		if hp, ok := err.(*env.HandlerPanic); ok {
			return kernel.Violationf("api-panic", "%v", hp)
		}
		return err
	}
	var list []string
	if code != http.StatusOK || json.Unmarshal(body, &list) != nil || !sameIDs(list, r.glob.s.IDs) {
		return kernel.Violationf(class, "%s: GET blocked_services/list -> %d %s, want ids %v", what, code, body, r.glob.s.IDs)
	}
	// The clients' schedules, serialised the way GET /control/clients does
	// (clientJSON.Schedule is the *schedule.Weekly itself).
	for _, mc := range r.modelClients() {
		p, ok := r.n.Clients.FindByName(mc.name)
		if !ok || p.BlockedServices == nil || p.BlockedServices.Schedule == nil {
			return kernel.Violationf(class, "%s: client %q or its schedule is gone", what, mc.name)
		}
		raw, err := json.Marshal(struct {
			S *schedule.Weekly `json:"blocked_services_schedule"`
		}{p.BlockedServices.Schedule})
		if err != nil {
			return kernel.Violationf(class, "%s: schedule of client %q does not serialise: %v", what, mc.name, err)
		}
		var cj struct {
			S json.RawMessage `json:"blocked_services_schedule"`
		}
		_ = json.Unmarshal(raw, &cj)
		if diff := compareJSON(cj.S, &mc.st.s); diff != "" {
			return kernel.Violationf(class, "%s: schedule of client %q serialised to JSON differs: %s\n  got  %s\n  want %v", what, mc.name, diff, cj.S, mc.st.s)
		}
		if !sameIDs(p.BlockedServices.IDs, mc.st.s.IDs) {
			return kernel.Violationf(class, "%s: client %q ids %v, want %v", what, mc.name, p.BlockedServices.IDs, mc.st.s.IDs)
		}
	}
	if _, ok := r.n.Clients.FindByName(guestName); ok != r.hasGuest {
		return fmt.Errorf("harness: client %q exists=%v, model says %v", guestName, ok, r.hasGuest)
	}
	r.c.Probe("json_readback_ok")
	return nil
}

type modelClient struct {
	name string
	st   *mstate
}

// modelClients lists the persistent clients of the model.
func (r *runner) modelClients() []modelClient {
	out := []modelClient{{clientName, &r.cli}}
	if r.hasGuest {
		out = append(out, modelClient{guestName, &r.guest})
	}
	return out
}

func hasMarker(m *dns.Msg) bool {
	for _, rr := range m.Answer {
		if strings.Contains(rr.String(), "203.0.113.") {
			return true
		}
	}
	return false
}

func (r *runner) dayProbes(st *mstate, now time.Time, rng Day, who string) {
	c := r.c
	loc := st.loc
	lt := now.In(loc)
	y, m, d := lt.Date()
	sameDay := func(sec int64) bool {
		yy, mm, dd := time.Unix(sec, 0).In(loc).Date()
		return yy == y && mm == m && dd == d
	}
	// Probes only: the zone's offset transitions as the generator finds them.
	tr := zone(st.s.Zone).trans
	k := sort.Search(len(tr), func(i int) bool { return tr[i] > now.Unix() }) // first transition after now
	for _, i := range []int{k - 1, k} {
		if i < 0 || i >= len(tr) || !(sameDay(tr[i]) || sameDay(tr[i]-1)) {
			continue
		}
		c.Probe("dst_day_query")
		if offsetAt(loc, tr[i]) > offsetAt(loc, tr[i]-1) {
			c.Probe("short_day_query")
		} else {
			c.Probe("long_day_query")
		}
		if i == k-1 && sameDay(tr[i]) {
			c.Probe("query_after_transition_same_day")
		}
		if mid := time.Date(y, m, d, 0, 0, 0, 0, loc); mid.Hour() != 0 || mid.Day() != d {
			c.Probe("day_without_midnight_query")
		}
		break
	}
	if _, off := lt.Zone(); off%3600 != 0 {
		c.Probe("fractional_hour_offset_query")
	}
	sec := lt.Hour()*3600 + lt.Minute()*60 + lt.Second()
	for _, e := range []int{rng.S * 60, rng.E * 60} {
		if rng != (Day{}) && sec-e >= -1 && sec-e <= 1 {
			c.Probe("query_within_1s_of_edge")
		}
	}
	switch rng {
	case Day{}:
		c.Probe("empty_range_query")
	case Day{0, 1440}:
		c.Probe("full_day_range_query")
	}
	if who == "client" {
		c.Probe("client_schedule_query")
	}
}

func (r *runner) query(i int, op Op) error {
	st := &r.glob
	addr := globalAddr
	switch op.Who {
	case "client":
		st, addr = &r.cli, clientAddr
	case "guest":
		// An address without a persistent client gets the global configuration.
		addr = guestAddr
		if r.hasGuest {
			st = &r.guest
			r.c.Probe("guest_query")
		}
	}
	now := time.Now()
	paused := pausedAt(st.loc, st.s.Week, now)
	if st.s.Week == ([7]Day{}) && pausedAt(r.loaded.loc, r.loaded.s.Week, now) {
		// A schedule without ranges asked while the schedule the node was
		// started with is in effect.
		r.c.Probe("empty_schedule_query_in_loaded_global_window")
	}
	svcHit := false
	for _, id := range st.s.IDs {
		if model.ServiceMatch(r.svcRules[id], op.Name) {
			svcHit = true
		}
	}
	wantBlocked := svcHit && !paused
	lt := now.In(st.loc)
	rng := st.s.Week[lt.Weekday()]
	r.dayProbes(st, now, rng, op.Who)

	rep := r.n.Do(&dnsnode.Query{Proto: "udp", Addr: netip.AddrPortFrom(netip.MustParseAddr(addr), 40000), Name: op.Name, Qtype: dns.TypeA})
	kernel.Wait()
	if rep.WireErr != nil || rep.Msg == nil {
		return kernel.Violationf("no-reply", "op %d: %s from %s: no usable reply (err=%v wire=%v)", i, op.Name, addr, rep.Err, rep.WireErr)
	}
	var gotBlocked bool
	switch {
	case len(rep.Exchanges) == 0 && !hasMarker(rep.Msg):
		gotBlocked = true
	case len(rep.Exchanges) == 1 && hasMarker(rep.Msg):
		gotBlocked = false
	default:
		return kernel.Violationf("incoherent-reply", "op %d: %s from %s: %d upstream exchange(s) but reply %v", i, op.Name, addr, len(rep.Exchanges), rep.Msg.Answer)
	}
	r.c.Eventf("query %s %s at %s = %s %s (%s) range=%d..%d paused=%v svc=%v -> blocked=%v", op.Who, op.Name,
		now.UTC().Format("2006-01-02T15:04:05.000Z"), lt.Format("Mon 2006-01-02 15:04:05.000 -0700"), st.s.Zone, op.Aim, rng.S, rng.E, paused, svcHit, gotBlocked)
	if !svcHit {
		r.c.Probe("unrelated_name_query")
	} else if paused {
		r.c.Probe("paused_query")
	} else {
		r.c.Probe("blocked_query")
	}
	if gotBlocked == wantBlocked {
		return nil
	}
	class := "pause-mismatch"
	if svcHit && elapsedHypothesis(st.loc, st.s.Week, now) == !gotBlocked {
		class = "dst-elapsed-vs-wallclock"
	}
	_, off := lt.Zone()
	v := kernel.Violationf(class, "op %d: %s schedule in %s, %s range [%02d:%02d, %02d:%02d): at %s the wall clock there shows %s (UTC%+03d:%02d), so the pause must be %s and %s must be %s, but the query was %s",
		i, op.Who, st.s.Zone, lt.Weekday(), rng.S/60, rng.S%60, rng.E/60, rng.E%60,
		now.UTC().Format(time.RFC3339Nano), lt.Format("Mon 2006-01-02 15:04:05.000"), off/3600, abs(off%3600)/60,
		onOff(paused), op.Name, blockedWord(wantBlocked), blockedWord(gotBlocked))
	if r.c.Tolerate(v) {
		return nil
	}
	return v
}

func abs(x int) int {
	if x < 0 {
		return -x
	}
	return x
}

func onOff(b bool) string {
	if b {
		return "in effect"
	}
	return "not in effect"
}

func blockedWord(b bool) string {
	if b {
		return "blocked"
	}
	return "forwarded"
}

// badBodyJSON builds the request body of an invalid schedule.
func badScheduleJSON(b *Bad) string {
	return fmt.Sprintf(`{"time_zone":%s,%q:{"start":%s,"end":%s}}`, strconv.Quote(b.Zone), dayNames[b.Day], b.Start, b.End)
}

func (r *runner) mustBeInvalidJSON(b *Bad) error {
	s, err1 := strconv.ParseFloat(b.Start, 64)
	e, err2 := strconv.ParseFloat(b.End, 64)
	if err1 != nil || err2 != nil || !invalidPerStatement(s, e) {
		return fmt.Errorf("harness: generated range %s..%s is not invalid per the statement", b.Start, b.End)
	}
	return nil
}

// ---- overlapped requests (mode D) ------------------------------------------------

// pieceReader is a request body that arrives in pieces of at most chunk bytes;
// before each piece other tasks of the scheduler may run (a slow upload).
// Outside a scheduler run it is an ordinary reader.
type pieceReader struct {
	b     []byte
	chunk int
}

func (p *pieceReader) Read(dst []byte) (n int, err error) {
	if len(p.b) == 0 {
		return 0, io.EOF
	}
	sched.Yield()
	n = min(p.chunk, len(p.b), len(dst))
	copy(dst, p.b[:n])
	p.b = p.b[n:]
	return n, nil
}

// send is Mux.Do with a body that may arrive in pieces.
func (r *runner) send(method, path string, body []byte, chunk int) (code int, resp []byte, err error) {
	if chunk <= 0 || len(body) == 0 {
		return r.n.Mux.Do(method, path, body)
	}
	h := r.routes[method+" "+path]
	if h == nil {
		return 0, nil, fmt.Errorf("harness: no route %s %s", method, path)
	}
	req := httptest.NewRequest(method, path, &pieceReader{b: body, chunk: chunk}).WithContext(context.Background())
	req.Header.Set("Content-Type", "application/json")
	rec := httptest.NewRecorder()
	defer func() {
		if v := recover(); v != nil {
			err = &env.HandlerPanic{Route: method + " " + path, Value: v}
		}
	}()
	h(rec, req)
	return rec.Code, rec.Body.Bytes(), nil
}

// putBody is the body of PUT /control/blocked_services/update; without a
// schedule the (optional) member is left out.
func putBody(s *Sched, noSched bool) []byte {
	m := map[string]any{"ids": s.IDs}
	if !noSched {
		m["schedule"] = schedJSON(s)
	}
	body, _ := json.Marshal(m)
	return body
}

// afterPut is the configuration an accepted update leaves: its ids and its
// schedule, an empty schedule (in no particular zone) if it carries none.
func afterPut(s *Sched, noSched bool) Sched {
	if noSched {
		return Sched{IDs: s.IDs}
	}
	return *s
}

// partOut is what one overlapped request was answered.
type partOut struct {
	code    int
	body    []byte
	err     error
	blocked bool // query
	viol    error
}

func badPutBody(b *Bad) string {
	if b.Raw != "" {
		return b.Raw
	}
	return fmt.Sprintf(`{"ids":["4chan"],"schedule":%s}`, badScheduleJSON(b))
}

// ask sends one query and says whether it was answered locally (blocked) or
// forwarded; it does not wait for quiescence (it also runs as a task).
func (r *runner) ask(i int, addr, name string) (blocked bool, v error) {
	rep := r.n.Do(&dnsnode.Query{Proto: "udp", Addr: netip.AddrPortFrom(netip.MustParseAddr(addr), 40000), Name: name, Qtype: dns.TypeA})
	if rep.WireErr != nil || rep.Msg == nil {
		return false, kernel.Violationf("no-reply", "op %d: %s from %s: no usable reply (err=%v wire=%v)", i, name, addr, rep.Err, rep.WireErr)
	}
	switch {
	case len(rep.Exchanges) == 0 && !hasMarker(rep.Msg):
		return true, nil
	case len(rep.Exchanges) == 1 && hasMarker(rep.Msg):
		return false, nil
	}
	return false, kernel.Violationf("incoherent-reply", "op %d: %s from %s: %d upstream exchange(s) but reply %v", i, name, addr, len(rep.Exchanges), rep.Msg.Answer)
}

// wantBlocked is the statement applied to one configuration at one instant.
func (r *runner) wantBlocked(s *Sched, loc *time.Location, name string, now time.Time) bool {
	for _, id := range s.IDs {
		if model.ServiceMatch(r.svcRules[id], name) {
			return !pausedAt(loc, s.Week, now)
		}
	}
	return false
}

type getResp struct {
	Schedule json.RawMessage `json:"schedule"`
	IDs      []string        `json:"ids"`
}

// permutations calls f with every order of 0..n-1 (lexicographic) until f
// returns true.
func permutations(n int, f func([]int) bool) bool {
	perm := make([]int, 0, n)
	used := make([]bool, n)
	var rec func() bool
	rec = func() bool {
		if len(perm) == n {
			return f(perm)
		}
		for i := 0; i < n; i++ {
			if used[i] {
				continue
			}
			used[i] = true
			perm = append(perm, i)
			if rec() {
				return true
			}
			perm = perm[:len(perm)-1]
			used[i] = false
		}
		return false
	}
	return rec()
}

func describePart(p *Part) string {
	switch p.Kind {
	case "put":
		return fmt.Sprintf("PUT update %v (no schedule: %v; body in pieces of %d)", *p.S, p.NoSched, p.Chunk)
	case "legacy_set":
		return fmt.Sprintf("POST set %v (body in pieces of %d)", p.IDs, p.Chunk)
	case "bad_put":
		return fmt.Sprintf("PUT update, invalid: %s (body in pieces of %d)", p.Bad.Form, p.Chunk)
	case "get":
		return "GET get"
	case "list":
		return "GET list"
	}
	return fmt.Sprintf("query %s from %s", p.Name, p.Who)
}

// par runs the requests of op as concurrent tasks.  Each of them takes effect
// at one moment between its start and its end (the statement knows schedules
// and instants, not requests in pieces), so what they were answered and the
// configuration afterwards must be what ONE order of them gives: an update
// replaces ids and schedule, the list-only set replaces the ids, a rejected
// update changes nothing, a read reports the configuration of its moment, and
// a query is blocked or passed by the configuration of its moment.
func (r *runner) par(i int, op Op) error {
	c := r.c
	now := time.Now()
	parts := op.Par
	outs := make([]partOut, len(parts))
	names := make([]string, len(parts))
	fns := make([]func(), len(parts))
	for j := range parts {
		p, o := &parts[j], &outs[j]
		names[j] = p.Kind
		switch p.Kind {
		case "put":
			body := putBody(p.S, p.NoSched)
			fns[j] = func() {
				o.code, o.body, o.err = r.send("PUT", "/control/blocked_services/update", body, p.Chunk)
			}
		case "legacy_set":
			ids := p.IDs
			if ids == nil {
				ids = []string{}
			}
			body, _ := json.Marshal(ids)
			fns[j] = func() {
				o.code, o.body, o.err = r.send("POST", "/control/blocked_services/set", body, p.Chunk)
			}
		case "bad_put":
			if p.Bad.Raw == "" {
				if err := r.mustBeInvalidJSON(p.Bad); err != nil {
					return err
				}
			}
			body := []byte(badPutBody(p.Bad))
			fns[j] = func() {
				o.code, o.body, o.err = r.send("PUT", "/control/blocked_services/update", body, p.Chunk)
			}
		case "get":
			fns[j] = func() { o.code, o.body, o.err = r.send("GET", "/control/blocked_services/get", nil, 0) }
		case "list":
			fns[j] = func() { o.code, o.body, o.err = r.send("GET", "/control/blocked_services/list", nil, 0) }
		case "query":
			addr := globalAddr
			if p.Who == "client" {
				addr = clientAddr
			}
			fns[j] = func() { o.blocked, o.viol = r.ask(i, addr, p.Name) }
		default:
			return fmt.Errorf("harness: unknown overlapped request %q", p.Kind)
		}
	}
	// The clock stands still while the tasks run: the simulated resolver
	// answers at once, after a scheduling point.
	r.up.OnExchange = func() { sched.Yield() }
	res := sched.Run(op.Seed, op.Pct, names, fns)
	r.up.OnExchange = nil
	c.Fault("overlapped_admin_requests")
	c.Probes["sched_steps"] += res.Steps
	c.Probes["sched_switches"] += res.Switches
	if res.Deadlock != "" {
		r.abandon = true
		return kernel.Violationf("deadlock: "+res.Deadlock, "op %d: %d overlapped blocked-services requests, schedule seed %d: every task waits for a lock:\n%s", i, len(parts), op.Seed, res.Detail)
	}
	kernel.Wait()

	// What each request was answered, by itself.
	var log []string
	for j := range parts {
		p, o := &parts[j], &outs[j]
		if o.err != nil {
			if hp, ok := o.err.(*env.HandlerPanic); ok {
				return kernel.Violationf("api-panic", "op %d: overlapped %s: %v", i, describePart(p), hp)
			}
			return o.err
		}
		if o.viol != nil {
			return o.viol
		}
		switch p.Kind {
		case "put":
			log = append(log, fmt.Sprintf("put/%d/nosched=%v->%d", p.Chunk, p.NoSched, o.code))
			if p.NoSched {
				c.Probe("put_without_schedule")
			}
			if o.code != http.StatusOK {
				return kernel.Violationf("valid-schedule-rejected", "op %d: overlapped %s -> %d %s", i, describePart(p), o.code, o.body)
			}
			c.Fault("live_schedule_change")
		case "legacy_set":
			log = append(log, fmt.Sprintf("legacy_set%v/%d->%d", p.IDs, p.Chunk, o.code))
			if o.code != http.StatusOK {
				return kernel.Violationf("valid-list-rejected", "op %d: overlapped %s -> %d %s", i, describePart(p), o.code, o.body)
			}
			c.Fault("legacy_list_change")
		case "bad_put":
			log = append(log, fmt.Sprintf("bad_put(%s)/%d->%d", p.Bad.Form, p.Chunk, o.code))
			c.Fault("invalid_schedule_submitted")
			if o.code < 400 || o.code > 499 {
				class := "invalid-range-accepted"
				if p.Bad.Raw != "" {
					class = "broken-document-accepted"
				}
				return kernel.Violationf(class, "op %d: overlapped PUT %s (%s) -> %d %s", i, badPutBody(p.Bad), p.Bad.Form, o.code, o.body)
			}
		case "get", "list":
			log = append(log, fmt.Sprintf("%s->%d %s", p.Kind, o.code, bytes.TrimSpace(o.body)))
			if o.code != http.StatusOK {
				return kernel.Violationf("json-roundtrip-changed", "op %d: overlapped %s -> %d %s", i, describePart(p), o.code, o.body)
			}
		case "query":
			log = append(log, fmt.Sprintf("query %s %s->blocked=%v", p.Who, p.Name, o.blocked))
			if p.Who == "client" {
				// Requests about the global configuration do not concern the
				// client's own schedule.
				if want := r.wantBlocked(&r.cli.s, r.cli.loc, p.Name, now); o.blocked != want {
					return kernel.Violationf("pause-mismatch", "op %d: query %s from the client with its own schedule %v at %s, overlapped with requests about the global one: must be %s, was %s",
						i, p.Name, r.cli.s, now.UTC().Format(time.RFC3339Nano), blockedWord(want), blockedWord(o.blocked))
				}
			}
		}
	}

	// The configuration afterwards.
	code, body, err := r.n.Mux.Do("GET", "/control/blocked_services/get", nil)
	if err != nil {
		if hp, ok := err.(*env.HandlerPanic); ok {
			return kernel.Violationf("api-panic", "%v", hp)
		}
		return err
	}
	var final getResp
	if code != http.StatusOK || json.Unmarshal(body, &final) != nil {
		return kernel.Violationf("json-roundtrip-changed", "op %d after overlapped requests: GET blocked_services/get -> %d %s", i, code, body)
	}

	// One serial order must explain everything.
	var after Sched
	var order []int
	var harnessErr error
	found := permutations(len(parts), func(perm []int) bool {
		st := r.glob.s
		for _, j := range perm {
			p, o := &parts[j], &outs[j]
			switch p.Kind {
			case "put":
				st = afterPut(p.S, p.NoSched)
			case "legacy_set":
				st.IDs = p.IDs
			case "get":
				var g getResp
				if json.Unmarshal(o.body, &g) != nil || compareJSON(g.Schedule, &st) != "" || !sameIDs(g.IDs, st.IDs) {
					return false
				}
			case "list":
				var l []string
				if json.Unmarshal(o.body, &l) != nil || !sameIDs(l, st.IDs) {
					return false
				}
			case "query":
				if p.Who == "client" {
					continue
				}
				loc, err := r.loc(st.Zone)
				if err != nil {
					harnessErr = err
					return true
				}
				if o.blocked != r.wantBlocked(&st, loc, p.Name, now) {
					return false
				}
			}
		}
		if compareJSON(final.Schedule, &st) != "" || !sameIDs(final.IDs, st.IDs) {
			return false
		}
		after, order = st, append([]int(nil), perm...)
		return true
	})
	if harnessErr != nil {
		return harnessErr
	}
	c.Eventf("par seed=%d pct=%d [%s] -> %s order=%v steps=%d", op.Seed, op.Pct, strings.Join(log, "; "), bytes.TrimSpace(body), order, res.Steps)
	if !found {
		var b strings.Builder
		for j := range parts {
			fmt.Fprintf(&b, "  request %d: %s -> ", j, describePart(&parts[j]))
			if parts[j].Kind == "query" {
				fmt.Fprintf(&b, "%s\n", blockedWord(outs[j].blocked))
			} else {
				fmt.Fprintf(&b, "%d %s\n", outs[j].code, bytes.TrimSpace(outs[j].body))
			}
		}
		return kernel.Violationf("overlap-no-serial-order", "op %d at %s: %d blocked-services requests were in progress at the same time (schedule seed %d, %d%%); every one of them was answered as shown, but no order of them, applied to the configuration before (%v), gives these answers and the configuration GET get reports afterwards (an update replaces ids and schedule, the list-only set replaces the ids and leaves the schedule alone):\n%s  afterwards: %s",
			i, now.UTC().Format(time.RFC3339Nano), len(parts), op.Seed, op.Pct, r.glob.s, b.String(), bytes.TrimSpace(body))
	}
	loc, err := r.loc(after.Zone)
	if err != nil {
		return err
	}
	r.glob = mstate{s: after, loc: loc}
	r.modified = int(r.n.Modified.Load())
	c.Probe("par_ok")
	kinds := map[string]int{}
	slow := false
	for j := range parts {
		kinds[parts[j].Kind]++
		slow = slow || parts[j].Chunk > 0
	}
	if kinds["put"] > 0 && kinds["legacy_set"] > 0 {
		c.Probe("par_put_with_legacy_set")
	}
	if kinds["get"]+kinds["list"] > 0 {
		c.Probe("par_with_read")
	}
	if kinds["query"] > 0 {
		c.Probe("par_with_query")
	}
	if slow {
		c.Probe("par_body_in_pieces")
	}
	for k := range order {
		if order[k] != k {
			c.Probe("par_order_not_as_listed")
			break
		}
	}
	return r.readBack(fmt.Sprintf("op %d after overlapped requests", i), "json-roundtrip-changed")
}

func (r *runner) apply(i int, op Op) error {
	c := r.c
	switch op.Kind {
	case "query":
		return r.query(i, op)
	case "put":
		body := putBody(op.S, op.NoSched)
		code, resp, err := r.n.Mux.Do("PUT", "/control/blocked_services/update", body)
		if err != nil {
			if hp, ok := err.(*env.HandlerPanic); ok {
				return kernel.Violationf("api-panic", "%v", hp)
			}
			return err
		}
		c.Eventf("put %s -> %d", body, code)
		if code != http.StatusOK {
			return kernel.Violationf("valid-schedule-rejected", "op %d: PUT %s -> %d %s", i, body, code, resp)
		}
		after := afterPut(op.S, op.NoSched)
		loc, err := r.loc(after.Zone)
		if err != nil {
			return err
		}
		r.glob = mstate{s: after, loc: loc}
		r.modified = int(r.n.Modified.Load())
		c.Fault("live_schedule_change")
		c.Probe("put_ok")
		if op.NoSched {
			c.Probe("put_without_schedule")
		}
		return r.readBack(fmt.Sprintf("op %d after PUT", i), "json-roundtrip-changed")
	case "guest_set":
		// The second client through home's real handlers: POST
		// /control/clients/add if it does not exist (NoSched: without
		// "blocked_services_schedule", which leaves it an empty schedule),
		// POST /control/clients/update (always with a schedule) otherwise.
		data := map[string]any{"name": guestName, "ids": []string{guestAddr}, "use_global_settings": true,
			"use_global_blocked_services": false, "blocked_services": op.S.IDs}
		noSched := op.NoSched && !r.hasGuest
		if !noSched {
			data["blocked_services_schedule"] = schedJSON(op.S)
		}
		h, path, doc := r.addH, "/control/clients/add", any(data)
		if r.hasGuest {
			h, path, doc = r.updH, "/control/clients/update", map[string]any{"name": guestName, "data": data}
		}
		body, _ := json.Marshal(doc)
		code, resp, err := r.clientsAPI(h, path, body)
		if err != nil {
			if hp, ok := err.(*env.HandlerPanic); ok {
				return kernel.Violationf("api-panic", "%v on %s", hp, body)
			}
			return err
		}
		c.Eventf("guest_set POST %s %s -> %d", path, body, code)
		if code != http.StatusOK {
			return kernel.Violationf("valid-schedule-rejected", "op %d: POST %s %s -> %d %s", i, path, body, code, resp)
		}
		after := afterPut(op.S, noSched)
		loc, err := r.loc(after.Zone)
		if err != nil {
			return err
		}
		if r.hasGuest {
			c.Probe("guest_update_ok")
		} else if noSched {
			c.Probe("guest_add_without_schedule")
		} else {
			c.Probe("guest_add_ok")
		}
		r.guest, r.hasGuest = mstate{s: after, loc: loc}, true
		c.Fault("live_schedule_change")
		return r.readBack(fmt.Sprintf("op %d after POST %s", i, path), "json-roundtrip-changed")
	case "guest_del":
		if !r.hasGuest {
			c.Eventf("guest_del: no such client")
			return nil
		}
		body, _ := json.Marshal(map[string]any{"name": guestName})
		code, resp, err := r.clientsAPI(r.delH, "/control/clients/delete", body)
		if err != nil {
			if hp, ok := err.(*env.HandlerPanic); ok {
				return kernel.Violationf("api-panic", "%v on %s", hp, body)
			}
			return err
		}
		c.Eventf("guest_del -> %d", code)
		if code != http.StatusOK {
			return fmt.Errorf("harness: POST /control/clients/delete %s -> %d %s", body, code, resp)
		}
		r.hasGuest = false
		c.Probe("guest_del_ok")
		return r.readBack(fmt.Sprintf("op %d after deleting client %q", i, guestName), "json-roundtrip-changed")
	case "legacy_set":
		// The deprecated POST /control/blocked_services/set carries a list of
		// service ids and no schedule: the ids change, the configured pause
		// schedule stays what it is.
		ids := op.IDs
		if ids == nil {
			ids = []string{}
		}
		body, _ := json.Marshal(ids)
		code, resp, err := r.n.Mux.Do("POST", "/control/blocked_services/set", body)
		if err != nil {
			if hp, ok := err.(*env.HandlerPanic); ok {
				return kernel.Violationf("api-panic", "%v", hp)
			}
			return err
		}
		c.Eventf("legacy_set %s -> %d", body, code)
		if code != http.StatusOK {
			return kernel.Violationf("valid-list-rejected", "op %d: POST blocked_services/set %s -> %d %s", i, body, code, resp)
		}
		r.glob.s.IDs = ids
		r.modified = int(r.n.Modified.Load())
		c.Fault("legacy_list_change")
		c.Probe("legacy_set_ok")
		if r.glob.s.Week != ([7]Day{}) {
			c.Probe("legacy_set_over_schedule")
		}
		return r.readBack(fmt.Sprintf("op %d after legacy POST set (ids only)", i), "legacy-set-changed-schedule")
	case "bad_set":
		body := op.Bad.Raw
		code, resp, err := r.n.Mux.Do("POST", "/control/blocked_services/set", []byte(body))
		if err != nil {
			if hp, ok := err.(*env.HandlerPanic); ok {
				return kernel.Violationf("api-panic", "%v on %s", hp, body)
			}
			return err
		}
		c.Eventf("bad_set %s -> %d", body, code)
		c.Fault("invalid_schedule_submitted")
		if code < 400 || code > 499 {
			return kernel.Violationf("broken-document-accepted", "op %d: POST blocked_services/set %s (not a list of ids) -> %d %s", i, body, code, resp)
		}
		if int(r.n.Modified.Load()) != r.modified {
			return kernel.Violationf("rejected-but-changed", "op %d: rejected POST set %s marked the configuration as modified", i, body)
		}
		c.Probe("bad_set_rejected")
		return r.readBack(fmt.Sprintf("op %d after rejected POST set", i), "rejected-but-changed")
	case "client_set":
		// What POST /control/clients/update does with the schedule: decode the
		// clientJSON, clone the schedule into a new Persistent, Storage.Update.
		body, _ := json.Marshal(map[string]any{"name": clientName, "blocked_services_schedule": schedJSON(op.S)})
		var cj struct {
			S *schedule.Weekly `json:"blocked_services_schedule"`
		}
		if err := json.Unmarshal(body, &cj); err != nil || cj.S == nil {
			return kernel.Violationf("valid-schedule-rejected", "op %d: client schedule %s does not decode: %v", i, body, err)
		}
		prev, ok := r.n.Clients.FindByName(clientName)
		if !ok {
			return fmt.Errorf("harness: client %q not found", clientName)
		}
		np := prev.ShallowClone()
		np.BlockedServices = &filtering.BlockedServices{Schedule: cj.S.Clone(), IDs: op.S.IDs}
		if err := np.BlockedServices.Validate(); err != nil {
			return fmt.Errorf("harness: %w", err)
		}
		if err := r.n.Clients.Update(context.Background(), clientName, np); err != nil {
			return fmt.Errorf("harness: updating client: %w", err)
		}
		c.Eventf("client_set %s", body)
		loc, err := r.loc(op.S.Zone)
		if err != nil {
			return err
		}
		r.cli = mstate{s: *op.S, loc: loc}
		c.Fault("live_schedule_change")
		c.Probe("client_set_ok")
		return r.readBack(fmt.Sprintf("op %d after client update", i), "json-roundtrip-changed")
	case "bad_put":
		body := op.Bad.Raw
		if body == "" {
			if err := r.mustBeInvalidJSON(op.Bad); err != nil {
				return err
			}
			body = fmt.Sprintf(`{"ids":["4chan"],"schedule":%s}`, badScheduleJSON(op.Bad))
		}
		code, resp, err := r.n.Mux.Do("PUT", "/control/blocked_services/update", []byte(body))
		if err != nil {
			if hp, ok := err.(*env.HandlerPanic); ok {
				return kernel.Violationf("api-panic", "%v on %s", hp, body)
			}
			return err
		}
		c.Eventf("bad_put %s %s -> %d", op.Bad.Form, body, code)
		c.Fault("invalid_schedule_submitted")
		if code < 400 || code > 499 {
			class := "invalid-range-accepted"
			if op.Bad.Raw != "" {
				class = "broken-document-accepted"
			}
			return kernel.Violationf(class, "op %d: PUT %s (%s) -> %d %s", i, body, op.Bad.Form, code, resp)
		}
		if int(r.n.Modified.Load()) != r.modified {
			return kernel.Violationf("rejected-but-changed", "op %d: rejected PUT %s marked the configuration as modified", i, body)
		}
		c.Probe("bad_put_rejected")
		return r.readBack(fmt.Sprintf("op %d after rejected PUT", i), "rejected-but-changed")
	case "bad_client":
		if err := r.mustBeInvalidJSON(op.Bad); err != nil {
			return err
		}
		body := fmt.Sprintf(`{"name":%q,"blocked_services_schedule":%s}`, clientName, badScheduleJSON(op.Bad))
		var cj struct {
			S *schedule.Weekly `json:"blocked_services_schedule"`
		}
		err := json.Unmarshal([]byte(body), &cj)
		c.Eventf("bad_client %s %s -> err=%v", op.Bad.Form, body, err != nil)
		c.Fault("invalid_schedule_submitted")
		if err == nil {
			return kernel.Violationf("invalid-range-accepted", "op %d: client document %s (%s) decodes without error", i, body, op.Bad.Form)
		}
		c.Probe("bad_client_rejected")
		return nil
	case "bad_yaml":
		text := fmt.Sprintf("blocked_services:\n  schedule:\n    time_zone: %s\n    %s:\n      start: %s\n      end: %s\n  ids: [9gag]\n",
			strconv.Quote(op.Bad.Zone), dayNames[op.Bad.Day], op.Bad.Start, op.Bad.End)
		s, err1 := time.ParseDuration(op.Bad.Start)
		e, err2 := time.ParseDuration(op.Bad.End)
		if err1 != nil || err2 != nil || !invalidPerStatement(float64(s)/1e6, float64(e)/1e6) {
			return fmt.Errorf("harness: generated YAML range %s..%s is not invalid per the statement", op.Bad.Start, op.Bad.End)
		}
		var dst struct {
			B *filtering.BlockedServices `yaml:"blocked_services"`
		}
		err := yaml.Unmarshal([]byte(text), &dst)
		c.Eventf("bad_yaml %s %s..%s -> err=%v", op.Bad.Form, op.Bad.Start, op.Bad.End, err != nil)
		c.Fault("invalid_schedule_submitted")
		if err == nil {
			return kernel.Violationf("invalid-range-accepted", "op %d: YAML schedule (%s) loads without error:\n%s", i, op.Bad.Form, text)
		}
		c.Probe("bad_yaml_rejected")
		return nil
	case "restart":
		return r.restart(i, 0)
	case "par":
		return r.par(i, op)
	}
	return fmt.Errorf("harness: unknown op %q", op.Kind)
}

// restart writes the configuration as home does (WriteDiskConfig + yaml.Marshal),
// checks the YAML text, shuts the node down, lets down pass with nothing
// running, and starts a new node from the text.
func (r *runner) restart(i int, down time.Duration) error {
	c := r.c
	text, err := home.VerifSchedWriteConfig(r.n.Filter, r.n.Clients)
	if err != nil {
		return kernel.Violationf("yaml-roundtrip-rejected", "op %d: configuration does not serialise: %v", i, err)
	}
	var generic struct {
		Filtering struct {
			B struct {
				Schedule any      `yaml:"schedule"`
				IDs      []string `yaml:"ids"`
			} `yaml:"blocked_services"`
		} `yaml:"filtering"`
		Clients struct {
			Persistent []struct {
				Name string `yaml:"name"`
				B    struct {
					Schedule any      `yaml:"schedule"`
					IDs      []string `yaml:"ids"`
				} `yaml:"blocked_services"`
			} `yaml:"persistent"`
		} `yaml:"clients"`
	}
	if err := yaml.Unmarshal(text, &generic); err != nil {
		return kernel.Violationf("yaml-roundtrip-rejected", "op %d: written configuration is not YAML: %v", i, err)
	}
	if diff := compareYAML(generic.Filtering.B.Schedule, &r.glob.s); diff != "" {
		return kernel.Violationf("yaml-roundtrip-changed", "op %d: global schedule in the written YAML differs: %s\n%s", i, diff, text)
	}
	mcs := r.modelClients()
	if len(generic.Clients.Persistent) != len(mcs) {
		return kernel.Violationf("yaml-roundtrip-changed", "op %d: %d clients written, want %d", i, len(generic.Clients.Persistent), len(mcs))
	}
	for _, mc := range mcs {
		found := false
		for _, w := range generic.Clients.Persistent {
			if w.Name != mc.name {
				continue
			}
			found = true
			if diff := compareYAML(w.B.Schedule, &mc.st.s); diff != "" {
				return kernel.Violationf("yaml-roundtrip-changed", "op %d: schedule of client %q in the written YAML differs: %s\n%s", i, mc.name, diff, text)
			}
		}
		if !found {
			return kernel.Violationf("yaml-roundtrip-changed", "op %d: client %q is not in the written YAML\n%s", i, mc.name, text)
		}
	}
	c.Probe("yaml_written_ok")
	r.stop()
	if down > 0 {
		time.Sleep(down)
		c.Fault("clock_jump_while_down")
	}
	if err := r.startFromYAML(text, fmt.Sprintf("op %d restart", i)); err != nil {
		return err
	}
	c.Fault("restart")
	c.Eventf("restart down=%s", down)
	return r.readBack(fmt.Sprintf("op %d after restart", i), "yaml-roundtrip-changed")
}

// Run executes one scenario.
func Run(t *testing.T, scAny any, c *kernel.Ctx) error {
	sc := scAny.(*Scenario)
	if len(sc.Ops) == 0 {
		return nil
	}
	dnsnode.InitProcess()
	sched.Init()
	dir, err := kernel.TempDir("c18")
	if err != nil {
		return err
	}
	defer os.RemoveAll(dir)
	return kernel.Bubble(t, func() error {
		r := &runner{sc: sc, c: c, dir: dir, locs: map[string]*time.Location{}}
		for _, p := range []struct {
			dst *mstate
			s   Sched
		}{{&r.glob, sc.Global}, {&r.cli, sc.Client}} {
			loc, err := r.loc(p.s.Zone)
			if err != nil {
				return err
			}
			*p.dst = mstate{s: p.s, loc: loc}
		}
		r.up = &env.Upstream{Addr: "sim-upstream:53", Answer: env.DefaultAnswer, Timeout: 3 * time.Second}
		// Nothing runs yet: jumping to the first instant costs nothing.
		first := time.UnixMilli(sc.Ops[0].AtMs)
		if d := time.Until(first); d > 0 {
			time.Sleep(d)
		}
		if err := r.startFromYAML([]byte(r.initialYAML()), "initial configuration"); err != nil {
			return err
		}
		defer r.stop()
		if err := r.loadServiceRules(); err != nil {
			return err
		}
		if err := r.readBack("initial configuration", "yaml-roundtrip-changed"); err != nil {
			return err
		}
		for i, op := range sc.Ops {
			target := time.UnixMilli(op.AtMs)
			if d := time.Until(target); d > 0 {
				if d > aliveGap {
					if err := r.restart(i, d); err != nil {
						return err
					}
				} else {
					time.Sleep(d)
					kernel.Wait()
					c.SimTime += d
					c.Fault("clock_advance")
				}
			}
			if now := time.Now(); !now.Equal(target) && now.Before(target) {
				return fmt.Errorf("harness: clock at %s, want %s", now, target)
			}
			c.Eventf("op %d %s", i, op.Kind)
			if err := r.apply(i, op); err != nil {
				return err
			}
			c.Step()
		}
		return nil
	})
}

// Prop is the registration.
var Prop = &kernel.Property{
	ID:    "C18",
	Level: "exploration",
	Rule: "seeded cases (rapid): 1-2 zones drawn from every TZif file under /usr/share/zoneinfo found at run time (60% from a list of zones with midnight / 30-minute / 2-hour transitions and 30/45-minute offsets), a global and a per-client weekly schedule with whole-minute ranges (empty, full day, from 00:00, until 24:00, small hours, late evening, quarter hours), 5-30 (thorough: -50) strictly increasing instants between 2000 and 2037 on 2-8 anchor days (70% days of an offset transition of the zone, found by scanning offsets with package time) aimed at range edges, local midnight and the transition instant with offsets of 0, 1 ms, 1 s, 1 min, 30 min, 1 h; at each instant a query for a blocked-service domain from the global or the client address; between them valid PUTs, sets of the id list through the deprecated list-only POST /control/blocked_services/set (which must leave the schedule alone; read back through GET get and GET list), client updates, invalid JSON/YAML schedules (negative, inverted, beyond 24h, not whole minutes, broken documents) and restarts through YAML (written as home's configuration.write writes the filtering and clients sections, loaded as home's parseConfig loads them in a freshly started process: decoded over the pre-populated defaults, clients converted by clientObject.toPersistent); requests that carry NO schedule (a PUT update without the optional schedule member; a second persistent client added through home's real POST /control/clients/add without blocked_services_schedule, later updated and deleted through the real handlers) leave an empty schedule, which is never in effect - queries from the global, the client's and the second client's address follow, aimed at the ranges configured before; also operations in which 2-4 requests of the blocked-services family (PUT update, legacy POST set, rejected PUT, GET get, GET list, at most one DNS query) are in progress at the same time, interleaved at lock boundaries and between pieces of their request bodies by the seeded cooperative scheduler (mode D): their answers and the configuration afterwards must equal the result of one serial order of them; " +
		"non-trivial = the case executed at least one query the reference says must be blocked and one it says must be passed because of the pause, and the clock was advanced or jumped at least once; distinct = distinct scenario digests",
	Gen: Gen,
	New: func() any { return &Scenario{} },
	Run: Run,
	NonTrivial: func(_ any, c *kernel.Ctx) bool {
		return c.Probes["blocked_query"] > 0 && c.Probes["paused_query"] > 0 && c.Faults["clock_advance"]+c.Faults["clock_jump_while_down"] > 0
	},
	Real: []string{"internal/schedule (Weekly.Contains, JSON/YAML (un)marshalling, validation)", "internal/filtering (ApplyBlockedServices, ApplyAdditionalFiltering, blocked_services get/list/set/update handlers, WriteDiskConfig; for the overlapped requests built from a copy of the tree whose lock operations go through the internal/verifyield seam)", "internal/client.Storage (per-client blocked services, Add, Update, RemoveByName)", "internal/home (handleAddClient / handleUpdateClient / handleDelClient -> jsonToClient -> copyBlockedServices; clientsContainer.forConfig, clientObject.toPersistent, yaml.Unmarshal over the defaults of a fresh process - through verif_hooks_schedsim.go)", "internal/dnsforward request pipeline", "dnsproxy request path", "gopkg.in/yaml.v3 + golibs timeutil.Duration (configuration text)"},
	Stub: []string{"wall clock (synctest fake clock advanced to the generated instants)", "upstream resolver (logs every question)", "client socket", "query log and statistics (recorders)", "home's clients HTTP handlers for the first client (its schedule handling - decode clientJSON, Clone, Storage.Update - is repeated by the harness; the second client goes through the real add/update/delete handlers)", "home's configuration file (only the filtering and clients sections, written and loaded through hooks that use configuration's own types, forConfig and toPersistent)"},
	Assumptions: []string{
		"Go's package time and the host's zone database are the trusted base: the reference converts the instant with Time.In and reads weekday/hour/minute/second",
		"a gap of more than 60 days between two operations is spent with the node shut down and restarted from its YAML (hourly filter-update ticks of an idle node are not simulated for decades)",
		"a request without a schedule leaves an empty schedule whose time zone the statement does not name: the zone reported for it is not compared; an update of a client through the API always carries a schedule (what an update without one keeps is not stated)",
		"a range with start == end != 0 is not generated (the statement does not say whether it is inverted)",
		"the posix/ and right/ copies of the zone database are not used",
		"overlapped requests: every admin request and every query takes effect at one moment between its start and its end, so any serial order of the overlapped requests is accepted and nothing else; the simulated clock stands still while they overlap; tasks switch only at lock operations of the repository's own code, at the simulated resolver and between pieces of a request body",
	},
	FaultKinds: []string{"clock_advance", "clock_jump_while_down", "restart", "live_schedule_change", "legacy_list_change", "invalid_schedule_submitted", "overlapped_admin_requests"},
	ProbeNames: []string{"paused_query", "blocked_query", "unrelated_name_query", "dst_day_query", "short_day_query", "long_day_query", "day_without_midnight_query", "query_after_transition_same_day",
		"fractional_hour_offset_query", "query_within_1s_of_edge", "empty_range_query", "full_day_range_query", "client_schedule_query",
		"put_ok", "legacy_set_ok", "legacy_set_over_schedule", "bad_set_rejected", "client_set_ok", "bad_put_rejected", "bad_client_rejected", "bad_yaml_rejected", "yaml_written_ok", "json_readback_ok",
		"put_without_schedule", "guest_add_ok", "guest_add_without_schedule", "guest_update_ok", "guest_del_ok", "guest_query", "empty_schedule_query_in_loaded_global_window",
		"par_ok", "par_put_with_legacy_set", "par_with_read", "par_with_query", "par_body_in_pieces", "par_order_not_as_listed", "sched_steps", "sched_switches"},
}
