package c16

import (
	"testing"

	"github.com/AdguardTeam/AdGuardHome/verifsim/kernel"
)

func TestProp(t *testing.T) {
	kernel.Main(t, map[string]*kernel.Property{"C16": Prop})
}
