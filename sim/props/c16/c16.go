// Package c16 decides property C16 (a ClientID is taken only from a well-formed
// DoH path /dns-query/<id> or from a TLS/QUIC server name <id>.<configured
// name>; it is lower-cased and must be a valid host-name label or the request
// fails; plain and DNSCrypt requests never carry one; strict server-name
// checking rejects foreign names) by deterministic simulation: the real
// dnsforward + dnsproxy request path in a synctest bubble, requests of all six
// transports with generated server names / Host headers / raw DoH request
// targets (parsed by net/http as a real server would), persistent clients
// identified by ClientID whose settings make attribution observable, bursts of
// requests that are all in flight at once (received in one order, handled in
// another, their pipelines parked in a sleeping upstream), and reconfiguration
// of the DNS server between requests.  The oracle is a reference extractor
// written from the statement; the attribution of every request is read from
// what the server hands to the query log and to statistics and from the
// filtering settings it applied.
package c16

import (
	_ "embed"
	"encoding/json"
	"fmt"
	"net/netip"
	"os"
	"sort"
	"strings"
	"sync"
	"testing"
	"time"

	"github.com/AdguardTeam/AdGuardHome/internal/client"
	"github.com/AdguardTeam/AdGuardHome/internal/dnsforward"
	"github.com/AdguardTeam/AdGuardHome/internal/filtering"
	"github.com/AdguardTeam/AdGuardHome/internal/schedule"
	"github.com/AdguardTeam/AdGuardHome/verifsim/dnsnode"
	"github.com/AdguardTeam/AdGuardHome/verifsim/env"
	"github.com/AdguardTeam/AdGuardHome/verifsim/kernel"
	"github.com/AdguardTeam/AdGuardHome/verifsim/sched"
	"github.com/miekg/dns"
	"pgregory.net/rapid"
)

// ---------------------------------------------------------------------------
// Scenario

// Req is one client request.
type Req struct {
	Proto string `json:"proto"` // udp tcp tls https quic dnscrypt
	// SNI is the server name of the TLS / QUIC handshake (tls, quic, https
	// with TLS).
	SNI string `json:"sni,omitempty"`
	// Path is the raw (escaped) path of the DoH request target.
	Path string `json:"path,omitempty"`
	// Host is the Host header / :authority of the DoH request.
	Host string `json:"host,omitempty"`
	// NoTLS: the DoH request arrives over plain HTTP (unencrypted DoH behind
	// a reverse proxy); the Host header then is the server name.
	NoTLS bool `json:"no_tls,omitempty"`
	Src   int  `json:"src"`
	// Blocked: the question is for a name the global custom rule blocks.
	Blocked bool   `json:"blocked,omitempty"`
	Fault   string `json:"fault,omitempty"`
	// Q is the kind of question: "" an A question for a name of its own;
	// "aaaa" / "any" the same name with that type; "canary" / "canary6" the
	// browsers' canary domain (A / AAAA); "health" the server's healthcheck
	// name; "ddr" the resolver-discovery name (SVCB); "ptr_private" a reverse
	// question for a private address (the clients are all public).  Depending
	// on the server's settings some of these are answered by the server itself.
	Q string `json:"q,omitempty"`
}

// fixedName says whether questions of kind q all carry the same name.
func fixedName(q string) bool {
	return q == "canary" || q == "canary6" || q == "health" || q == "ddr"
}

// Op is one generated operation.
type Op struct {
	Kind string `json:"kind"` // req | burst | reconf | reconf_par
	Reqs []Req  `json:"reqs,omitempty"`
	// Order is the order in which the received requests of a burst are handled.
	Order []int `json:"order,omitempty"`
	// reconf_par: scheduler seed and preemption probability.
	Seed uint64 `json:"seed,omitempty"`
	Pct  int    `json:"pct,omitempty"`
}

// Scenario is one case.
type Scenario struct {
	ServerName string `json:"server_name"`
	Strict     bool   `json:"strict"`
	// AAAAOff, RefuseAny, DDR are the DNS server's settings "disable
	// resolving of IPv6 addresses", "refuse ANY requests" and "handle
	// resolver-discovery requests".
	AAAAOff   bool `json:"aaaa_off,omitempty"`
	RefuseAny bool `json:"refuse_any,omitempty"`
	DDR       bool `json:"ddr,omitempty"`
	// FilterOff lists the ClientIDs of persistent clients whose own settings
	// turn filtering off.
	FilterOff []string `json:"filter_off"`
	Ops       []Op     `json:"ops"`
}

// ---------------------------------------------------------------------------
// Generator

var (
	long63 = strings.Repeat("a", 62) + "z"
	long64 = strings.Repeat("a", 63) + "z"
	long70 = strings.Repeat("b", 70)

	serverNames = []string{"example.org", "example.org", "example.org", "dns.example.org", "disk.example.org", "Example.ORG", ""}
	validIDs    = []string{"alice", "alice", "bob", "bob", "kate", "sis", "a", "x1", "a-b", "0", "ALICE", "Bob", "aLiCe", "Kate", "xn--e1a", long63}
	invalidIDs  = []string{long64, long70, "-abc", "abc-", "-", "a_b", "_", "a b", "a!b", "é", "alíce", "a%b", "a\x00b", "a*", "a:b", "a/b", "a\tb", "alice ", "a?b", "a#b", "a\\b", "..."}
	persistent  = []string{"alice", "bob", long63, "a", "kate"}
	protos      = []string{"udp", "tcp", "dnscrypt", "tls", "tls", "quic", "quic", "https", "https", "https"}
	sources     = []string{"198.51.100.7:40001", "198.51.100.8:40002", "[2001:db8:1::9]:40003", "203.0.113.200:40004"}
	burstSizes  = []int{2, 2, 3, 3, 4, 5, 8, 8, 13, 16, 24, 33, 48, 64}
)

func genLabel(t *rapid.T, tag string) string {
	switch k := rapid.IntRange(0, 10).Draw(t, tag+"_valid"); {
	case k < 6:
		return rapid.SampledFrom(validIDs).Draw(t, tag)
	case k == 10:
		// A valid identifier in which one letter is replaced by a non-ASCII
		// relative of it.
		return lookalike(rapid.SampledFrom(validIDs).Draw(t, tag), rapid.IntRange(0, 3).Draw(t, tag+"_fold"))
	}
	return rapid.SampledFrom(invalidIDs).Draw(t, tag)
}

// lookalike replaces one ASCII letter of s by a non-ASCII character that
// Unicode relates to an ASCII letter: mode 0 K -> U+212A KELVIN SIGN (lower
// case "k"), mode 1 s -> U+017F LONG S (upper case "S", folds to "s"), mode 2
// i -> U+0131 DOTLESS I (upper case "I") / I -> U+0130 (lower case "i" +
// U+0307), mode 3 (and whenever s has no such letter) the first letter -> its
// full-width form (no case relation to ASCII, but NFKC-equivalent).
func lookalike(s string, mode int) string {
	sub := func(set string, with func(ch byte) string) (string, bool) {
		if i := strings.IndexAny(s, set); i >= 0 {
			return s[:i] + with(s[i]) + s[i+1:], true
		}
		return s, false
	}
	var out string
	var ok bool
	switch mode {
	case 0:
		out, ok = sub("kK", func(byte) string { return "\u212a" })
	case 1:
		out, ok = sub("sS", func(byte) string { return "\u017f" })
	case 2:
		out, ok = sub("iI", func(ch byte) string {
			if ch == 'I' {
				return "\u0130"
			}
			return "\u0131"
		})
	}
	if ok {
		return out
	}
	out, ok = sub("abcdefghijklmnopqrstuvwxyzABCDEFGHIJKLMNOPQRSTUVWXYZ", func(ch byte) string {
		if ch >= 'a' {
			return string(rune(0xff41 + int(ch-'a')))
		}
		return string(rune(0xff21 + int(ch-'A')))
	})
	if ok {
		return out
	}
	return s + "\u212a"
}

// flipCase changes the letter case of every second letter.
func flipCase(s string) string {
	b := []byte(s)
	n := 0
	for i, ch := range b {
		switch {
		case ch >= 'a' && ch <= 'z':
			if n%2 == 0 {
				b[i] = ch - 32
			}
			n++
		case ch >= 'A' && ch <= 'Z':
			if n%2 == 0 {
				b[i] = ch + 32
			}
			n++
		}
	}
	return string(b)
}

// genName draws a client server name relative to the configured one.
func genName(t *rapid.T, conf string, tag string) string {
	base := conf
	if base == "" {
		base = "example.org"
	}
	l := genLabel(t, tag+"_l")
	var name string
	switch rapid.IntRange(0, 21).Draw(t, tag+"_kind") {
	case 0, 1:
		name = base
	case 2, 3, 4, 5, 6, 7, 8, 9:
		name = l + "." + base
	case 10:
		name = l + "." + genLabel(t, tag+"_l2") + "." + base
	case 11:
		// Sibling / parent.
		if i := strings.IndexByte(base, '.'); i >= 0 && rapid.Bool().Draw(t, tag+"_parent") {
			name = base[i+1:]
		} else if i >= 0 {
			name = "other" + base[i:]
		}
	case 12:
		name = l + ".other.test"
	case 13:
		name = "x" + base
	case 14:
		name = l + ".x" + base
	case 15:
		name = l + base
	case 16:
		name = l + "." + base + ".evil.test"
	case 17:
		name = ""
	case 18:
		name = l + "." + base + ":853"
	case 19:
		name = l + "." + base + "."
	case 20:
		name = "." + base
	case 21:
		name = "192.0.2.1"
	}
	switch rapid.IntRange(0, 12).Draw(t, tag+"_case") {
	case 0:
		name = asciiUpper(name)
	case 1:
		name = flipCase(name)
	case 2:
		// Only the configured part changes case.
		if strings.HasSuffix(name, base) {
			name = name[:len(name)-len(base)] + flipCase(base)
		}
	case 3:
		// The configured part is spelled with a non-ASCII relative of one of
		// its letters: a different name.
		if strings.HasSuffix(name, base) {
			name = name[:len(name)-len(base)] + lookalike(base, rapid.IntRange(0, 3).Draw(t, tag+"_fold_base"))
		}
	}
	return name
}

func genHost(t *rapid.T, conf string) string {
	switch rapid.IntRange(0, 13).Draw(t, "host_kind") {
	case 0:
		return ""
	case 1:
		return "[::1]:443"
	case 2:
		return "a:b:c"
	}
	h := genName(t, conf, "host")
	// Keep the Host header printable ASCII (net/http refuses the rest before
	// any handler runs).
	for i := 0; i < len(h); i++ {
		if h[i] <= ' ' || h[i] >= 0x7f {
			h = "alice." + conf
			break
		}
	}
	switch rapid.IntRange(0, 5).Draw(t, "host_port") {
	case 0, 1:
		h += ":443"
	case 2:
		h += ":"
	}
	return h
}

const hexdig = "0123456789ABCDEF"

func pct(ch byte) string { return "%" + string(hexdig[ch>>4]) + string(hexdig[ch&15]) }

// escapePath turns a decoded path into a raw request-target path: what must be
// escaped is, and mode selects additional, unnecessary escapes.
func escapePath(p string, mode int) string {
	var sb strings.Builder
	lastSlash := strings.LastIndexByte(p, '/')
	for i := 0; i < len(p); i++ {
		ch := p[i]
		must := ch <= ' ' || ch >= 0x7f || ch == '%' || ch == '?' || ch == '#' || ch == '\\' || ch == '"' || ch == '<' || ch == '>' || ch == '^' || ch == '`' || ch == '{' || ch == '|' || ch == '}'
		if mode == 6 {
			// A sloppy client: only what would change the meaning of the
			// request target is escaped.
			must = ch == '%' || ch == '?' || ch == '#'
		}
		extra := false
		switch mode {
		case 1:
			extra = ch == '.'
		case 2:
			extra = ch == '/' && i > 0
		case 3:
			extra = i > lastSlash
		case 4:
			extra = (ch >= 'a' && ch <= 'z' || ch >= 'A' && ch <= 'Z') && i%3 == 0
		case 5:
			extra = ch == '-' || ch == '_'
		}
		if must || extra {
			sb.WriteString(pct(ch))
		} else {
			sb.WriteByte(ch)
		}
	}
	return sb.String()
}

func genPath(t *rapid.T) string {
	l := genLabel(t, "path_l")
	var p string
	switch rapid.IntRange(0, 30).Draw(t, "path_kind") {
	case 0, 1, 2:
		p = "/dns-query"
	case 3, 4, 5, 6, 7, 8, 9, 10:
		p = "/dns-query/" + l
	case 11:
		p = "/dns-query/" + l + "/"
	case 12:
		p = "/dns-query/"
	case 13:
		p = "/dns-query/" + l + "/" + genLabel(t, "path_l2")
	case 14:
		p = "/dns-query//" + l
	case 15:
		p = "//dns-query/" + l
	case 16:
		p = "/dns-query/./" + l
	case 17:
		p = "/dns-query/" + l + "/."
	case 18:
		p = "/dns-query/" + genLabel(t, "path_l2") + "/../" + l
	case 19:
		p = "/dns-query/" + l + "/.."
	case 20:
		p = "/../dns-query/" + l
	case 21:
		p = "/dns-query/../dns-query/" + l
	case 22:
		p = "/dns-query/.."
	case 23:
		p = "/other/" + l
	case 24:
		p = "/dns-queryx/" + l
	case 25:
		p = "/DNS-QUERY/" + l
	case 26:
		p = "/"
	case 27:
		p = "/dns-query/" + l + "/" + genLabel(t, "path_l2") + "/" + genLabel(t, "path_l3")
	case 28:
		// prefix lookalikes of the endpoint name: not the DoH endpoint at all
		p = "/dns-query" + l
	case 29:
		p = "/dns-query" + l + "/"
	case 30:
		p = "/x/../dns-query" + l
	}
	mode := 0
	if rapid.IntRange(0, 3).Draw(t, "path_escape") == 0 {
		mode = rapid.IntRange(1, 6).Draw(t, "path_escape_mode")
	}
	return escapePath(p, mode)
}

func genReq(t *rapid.T, conf string) Req {
	r := Req{Proto: rapid.SampledFrom(protos).Draw(t, "proto"), Src: rapid.IntRange(0, len(sources)-1).Draw(t, "src")}
	r.Blocked = rapid.IntRange(0, 2).Draw(t, "blocked") > 0
	switch rapid.IntRange(0, 11).Draw(t, "fault") {
	case 0:
		r.Fault = string(env.UpError)
	case 1:
		r.Fault = string(env.UpServfail)
	case 2, 3, 4:
		r.Fault = string(env.UpSlow)
	}
	switch rapid.IntRange(0, 19).Draw(t, "q_kind") {
	case 0, 1:
		r.Q = "aaaa"
	case 2:
		r.Q = "any"
	case 3:
		r.Q = "canary"
	case 4:
		r.Q = "canary6"
	case 5:
		r.Q = "health"
	case 6:
		r.Q = "ddr"
	case 7:
		r.Q = "ptr_private"
	}
	switch r.Proto {
	case "tls", "quic":
		r.SNI = genName(t, conf, "sni")
	case "https":
		r.Path = genPath(t)
		r.NoTLS = rapid.IntRange(0, 3).Draw(t, "no_tls") == 0
		if r.NoTLS {
			r.Host = genHost(t, conf)
		} else {
			r.SNI = genName(t, conf, "sni")
			if rapid.IntRange(0, 2).Draw(t, "host_differs") == 0 {
				// The Host header disagrees with the handshake.
				r.Host = genHost(t, conf)
			} else {
				r.Host = r.SNI
				for i := 0; i < len(r.Host); i++ {
					if r.Host[i] <= ' ' || r.Host[i] >= 0x7f {
						r.Host = conf
						break
					}
				}
			}
		}
	}
	return r
}

// Gen draws a scenario.
func Gen(t *rapid.T, tier string) any {
	sc := &Scenario{
		ServerName: rapid.SampledFrom(serverNames).Draw(t, "server_name"),
		Strict:     rapid.Bool().Draw(t, "strict"),
		AAAAOff:    rapid.Bool().Draw(t, "aaaa_off"),
		RefuseAny:  rapid.Bool().Draw(t, "refuse_any"),
		DDR:        rapid.Bool().Draw(t, "ddr"),
	}
	for _, id := range persistent {
		if rapid.IntRange(0, 2).Draw(t, "filter_off_"+id[:1]) > 0 {
			sc.FilterOff = append(sc.FilterOff, id)
		}
	}
	maxOps := 10
	if tier == "thorough" {
		maxOps = 16
	}
	nops := rapid.IntRange(2, maxOps).Draw(t, "nops")
	reconfProne := rapid.IntRange(0, 3).Draw(t, "reconf_prone") == 0
	// Questions whose name is the same for every request of the kind are told
	// apart by the operation they belong to: one of a kind per operation.
	oneOfAKind := func(reqs []Req) {
		seen := map[string]bool{}
		for j := range reqs {
			q := reqs[j].Q
			if q == "canary6" {
				q = "canary"
			}
			if fixedName(q) && seen[q] {
				reqs[j].Q = ""
			}
			seen[q] = true
		}
	}
	for i := 0; i < nops; i++ {
		k := rapid.IntRange(0, 9).Draw(t, "op_kind")
		switch {
		case k == 0 && reconfProne && i > 0:
			sc.Ops = append(sc.Ops, Op{Kind: "reconf"})
		case k == 1 && reconfProne && i > 0:
			// A reconfiguration while requests are being handled: the
			// interleaving at the lock boundaries is the scheduler seed's.
			op := Op{Kind: "reconf_par", Seed: rapid.Uint64().Draw(t, "par_seed"), Pct: rapid.SampledFrom([]int{20, 50, 80}).Draw(t, "par_pct")}
			for j, n := 0, rapid.IntRange(1, 3).Draw(t, "par_reqs"); j < n; j++ {
				rq := genReq(t, sc.ServerName)
				rq.Fault = ""
				op.Reqs = append(op.Reqs, rq)
			}
			oneOfAKind(op.Reqs)
			sc.Ops = append(sc.Ops, op)
			// The request ids of the new proxy start again from 1: often follow
			// the phase with at least as many plain requests as were received
			// before it, so that every id in use before comes round again.
			if rapid.Bool().Draw(t, "par_then_plain") {
				before := 0
				for _, o := range sc.Ops {
					before += len(o.Reqs)
				}
				if before > 45 {
					before = 45
				}
				b := Op{Kind: "burst"}
				for j := 0; j < before+3; j++ {
					b.Reqs = append(b.Reqs, Req{Proto: rapid.SampledFrom([]string{"udp", "tcp", "dnscrypt"}).Draw(t, "plain_proto"), Src: rapid.IntRange(0, len(sources)-1).Draw(t, "plain_src")})
					b.Order = append(b.Order, j)
				}
				sc.Ops = append(sc.Ops, b)
			}
		case k <= 5:
			sc.Ops = append(sc.Ops, Op{Kind: "req", Reqs: []Req{genReq(t, sc.ServerName)}})
		default:
			n := rapid.SampledFrom(burstSizes).Draw(t, "burst_size")
			op := Op{Kind: "burst"}
			for j := 0; j < n; j++ {
				op.Reqs = append(op.Reqs, genReq(t, sc.ServerName))
			}
			oneOfAKind(op.Reqs)
			idx := make([]int, n)
			for j := range idx {
				idx[j] = j
			}
			switch rapid.IntRange(0, 2).Draw(t, "order_kind") {
			case 0:
				op.Order = idx
			case 1:
				for j := range idx {
					idx[j] = n - 1 - j
				}
				op.Order = idx
			default:
				op.Order = rapid.Permutation(idx).Draw(t, "order")
			}
			sc.Ops = append(sc.Ops, op)
		}
	}
	return sc
}

// ---------------------------------------------------------------------------
// Reference extractor, written from the statement.

// verdict is what the statement allows for one request.
type verdict struct {
	ids  []string // identifiers the request may be attributed to
	none bool     // may be processed without a ClientID
	fail bool     // may be (or, if nothing else is allowed, must be) failed
	// why names the reason when failure is the only allowed outcome.
	why string
	// open lists the points the statement leaves open that were met.
	open []string
	// idFromPath is set by the DoH combination when the path names a valid id.
	idFromPath string
}

func (v verdict) allowsID(id string) bool {
	for _, x := range v.ids {
		if x == id {
			return true
		}
	}
	return false
}

func (v verdict) String() string {
	var parts []string
	for _, id := range v.ids {
		parts = append(parts, "id:"+short(id))
	}
	if v.none {
		parts = append(parts, "none")
	}
	if v.fail {
		parts = append(parts, "fail")
	}
	s := strings.Join(parts, "|")
	if v.why != "" {
		s += "(" + v.why + ")"
	}
	return s
}

func short(s string) string {
	if len(s) > 20 {
		return fmt.Sprintf("%s..(%d)", s[:8], len(s))
	}
	return s
}

// validLabel says whether s is a valid host-name label (RFC 952 / RFC 1123):
// 1 to 63 letters, digits and hyphens, not starting or ending with a hyphen.
func validLabel(s string) bool {
	if len(s) < 1 || len(s) > 63 {
		return false
	}
	for i := 0; i < len(s); i++ {
		ch := s[i]
		switch {
		case ch >= 'a' && ch <= 'z', ch >= 'A' && ch <= 'Z', ch >= '0' && ch <= '9':
		case ch == '-' && i > 0 && i < len(s)-1:
		default:
			return false
		}
	}
	return true
}

func asciiUpper(s string) string {
	b := []byte(s)
	for i, ch := range b {
		if ch >= 'a' && ch <= 'z' {
			b[i] = ch - 32
		}
	}
	return string(b)
}

func asciiLower(s string) string {
	b := []byte(s)
	for i, ch := range b {
		if ch >= 'A' && ch <= 'Z' {
			b[i] = ch + 32
		}
	}
	return string(b)
}

// refLabel: a candidate identifier either is a valid label (then the
// lower-cased label is the ClientID) or the request fails.
func refLabel(l string) verdict {
	if validLabel(l) {
		return verdict{ids: []string{asciiLower(l)}}
	}
	return verdict{fail: true, why: "invalid-label"}
}

// refName judges the client's server name c against the configured one h.
func refName(h, c string, strict bool) verdict {
	switch {
	case h == "":
		// Nothing is configured, so no name has the form <id>.<configured>.
		// Whether strict checking then rejects anything is not stated.
		v := verdict{none: true}
		if strict {
			v.fail = true
			v.open = append(v.open, "open_strict_without_configured_name")
		}
		return v
	case c == "":
		// No server name at all: not "a name outside the configured domain"
		// in so many words; with strict checking either way is accepted.
		v := verdict{none: true}
		if strict {
			v.fail = true
			v.open = append(v.open, "open_strict_empty_name")
		}
		return v
	case c == h:
		return verdict{none: true}
	}
	lc, lh := asciiLower(c), asciiLower(h)
	switch {
	case strings.HasSuffix(c, "."+h):
		prefix := c[:len(c)-len(h)-1]
		switch {
		case prefix == "":
			// ".example.org": an empty label.
			return verdict{none: true, fail: true, open: []string{"open_empty_label_name"}}
		case strings.Contains(prefix, "."):
			// Deeper than an immediate subdomain: inside the configured
			// domain, but not of the form <id>.<configured>.
			return verdict{none: true, fail: true, open: []string{"open_deeper_subdomain"}}
		default:
			return refLabel(prefix)
		}
	case lc == lh:
		v := verdict{none: true, open: []string{"open_configured_name_case"}}
		if strict {
			v.fail = true
		}
		return v
	case strings.HasSuffix(lc, "."+lh):
		// The configured part differs in letter case only.  Host names are
		// case-insensitive, the statement does not say.
		prefix := c[:len(c)-len(h)-1]
		v := verdict{none: true, fail: true, open: []string{"open_configured_name_case"}}
		if validLabel(prefix) {
			v.ids = []string{asciiLower(prefix)}
		}
		return v
	}
	// A name outside the configured domain.
	if strict {
		return verdict{fail: true, why: "strict-foreign-name"}
	}
	return verdict{none: true}
}

// hostOf strips the optional port of a Host header value.
func hostOf(hostport string) (host string, malformed bool) {
	if hostport == "" {
		return "", false
	}
	if hostport[0] == '[' {
		i := strings.IndexByte(hostport, ']')
		if i < 0 {
			return "", true
		}
		rest := hostport[i+1:]
		if rest != "" && (rest[0] != ':' || !allDigits(rest[1:])) {
			return "", true
		}
		return hostport[1:i], false
	}
	switch strings.Count(hostport, ":") {
	case 0:
		return hostport, false
	case 1:
		i := strings.IndexByte(hostport, ':')
		if !allDigits(hostport[i+1:]) {
			return "", true
		}
		return hostport[:i], false
	}
	return "", true
}

func allDigits(s string) bool {
	for i := 0; i < len(s); i++ {
		if s[i] < '0' || s[i] > '9' {
			return false
		}
	}
	return true
}

// refPath judges the decoded path of a DoH request.
func refPath(p string) verdict {
	if !strings.HasPrefix(p, "/") {
		return verdict{none: true, fail: true, open: []string{"open_not_a_doh_path"}}
	}
	segs := strings.Split(p[1:], "/")
	canonical := true
	for _, s := range segs {
		if s == "" || s == "." || s == ".." {
			canonical = false
		}
	}
	if p == "/" {
		canonical, segs = true, nil
	}
	if canonical {
		return refSegments(segs)
	}
	// Doubled / trailing slashes and dot segments: the statement does not say
	// whether such spellings are normalised first or refused; after standard
	// normalisation (RFC 3986, 5.2.4 and empty-segment removal) the path names
	// at most one identifier, and nothing else may come out of it.
	var norm []string
	for _, s := range segs {
		switch s {
		case "", ".":
		case "..":
			if len(norm) > 0 {
				norm = norm[:len(norm)-1]
			}
		default:
			norm = append(norm, s)
		}
	}
	v := refSegments(norm)
	if !v.fail {
		v.fail = true
		v.why = ""
	}
	v.open = append(v.open, "open_noncanonical_path")
	return v
}

func refSegments(segs []string) verdict {
	if len(segs) == 0 || segs[0] != "dns-query" {
		// Not the DoH endpoint at all: no ClientID may come out of it.
		return verdict{none: true, fail: true, open: []string{"open_not_a_doh_path"}}
	}
	switch len(segs) {
	case 1:
		return verdict{none: true}
	case 2:
		return refLabel(segs[1])
	}
	return verdict{fail: true, why: "extra-path-segments"}
}

// combine merges the verdicts of the two sources of a DoH request.
func combine(p, n verdict) verdict {
	if n.why == "strict-foreign-name" {
		// "with strict server-name checking a name outside the configured
		// domain is rejected", whatever the path says.
		v := verdict{fail: true, why: n.why}
		if len(p.ids) > 0 {
			v.idFromPath = p.ids[0]
		}
		return v
	}
	v := verdict{none: p.none && n.none, fail: p.fail || n.fail}
	v.ids = append(append([]string{}, p.ids...), n.ids...)
	v.open = append(append([]string{}, p.open...), n.open...)
	if len(p.ids) > 0 && len(n.ids) > 0 && p.ids[0] != n.ids[0] {
		v.open = append(v.open, "open_path_and_name_both_name_ids")
	}
	if len(v.ids) == 0 && !v.none {
		if p.why != "" {
			v.why = p.why
		} else {
			v.why = n.why
		}
	}
	return v
}

// reference returns what the statement allows for one request.  decodedPath is
// the URL path net/http derived from the raw request target.
func reference(sc *Scenario, rq *Req, decodedPath string) verdict {
	switch rq.Proto {
	case "udp", "tcp", "dnscrypt":
		return verdict{none: true}
	case "tls", "quic":
		return refName(sc.ServerName, rq.SNI, sc.Strict)
	case "https":
		pv := refPath(decodedPath)
		var nv verdict
		if rq.NoTLS {
			host, bad := hostOf(rq.Host)
			if bad {
				nv = verdict{none: true, fail: true, open: []string{"open_malformed_host_header"}}
			} else {
				nv = refName(sc.ServerName, host, sc.Strict)
			}
		} else {
			nv = refName(sc.ServerName, rq.SNI, sc.Strict)
		}
		return combine(pv, nv)
	}
	return verdict{}
}

// ---------------------------------------------------------------------------
// Runner

type runner struct {
	sc *Scenario
	c  *kernel.Ctx
	n  *dnsnode.Node
	up *env.Upstream

	mu     sync.Mutex
	faults map[string]env.UpstreamFault // by lower-cased question name

	seq       int
	filterOff map[string]bool
	// refIDs: identifiers some request of the case legitimately named.
	refIDs map[string]bool
	// preReconf: identifiers requests named before the latest reconfiguration.
	preReconf  map[string]bool
	attributed map[string]bool
	reconfs    int
	// abandon: a deadlock was found; the parked tasks hold the node's locks.
	abandon bool

	logSeen, statSeen, upSeen int
	logs                      map[string][]dnsnode.LoggedQuery
	stats                     map[string][]string
	exch                      map[string][]env.Exchange
}

type inflight struct {
	rq   *Req
	name string // fqdn
	p    *dnsnode.Prepared
	rep  *dnsnode.Reply
	ref  verdict
	// blocked: the question's name is one the global custom rule blocks.
	blocked bool
}

func (r *runner) nextFault(req *dns.Msg) env.UpstreamFault {
	r.mu.Lock()
	defer r.mu.Unlock()
	return r.faults[strings.ToLower(req.Question[0].Name)]
}

func (r *runner) prepare(rq *Req) (*inflight, error) {
	r.seq++
	kind := "ok"
	if rq.Blocked {
		kind = "blocked"
	}
	f := &inflight{rq: rq, name: fmt.Sprintf("r%d.%s.test.", r.seq, kind), blocked: rq.Blocked}
	qtype := dns.TypeA
	switch rq.Q {
	case "":
	case "aaaa":
		qtype = dns.TypeAAAA
	case "any":
		qtype = dns.TypeANY
	case "canary", "canary6":
		// https://support.mozilla.org/en-US/kb/canary-domain-use-application-dnsnet
		f.name, f.blocked = "use-application-dns.net.", false
		if rq.Q == "canary6" {
			qtype = dns.TypeAAAA
		}
	case "health":
		f.name, f.blocked = "healthcheck.adguardhome.test.", false
	case "ddr":
		// RFC 9462.
		f.name, f.blocked, qtype = "_dns.resolver.arpa.", false, dns.TypeSVCB
	case "ptr_private":
		f.name, f.blocked, qtype = fmt.Sprintf("%d.%d.168.192.in-addr.arpa.", r.seq%250+1, r.seq/250), false, dns.TypePTR
	default:
		return nil, fmt.Errorf("harness: unknown question kind %q", rq.Q)
	}
	r.mu.Lock()
	if rq.Fault != "" {
		r.faults[f.name] = env.UpstreamFault(rq.Fault)
	} else {
		delete(r.faults, f.name)
	}
	r.mu.Unlock()
	q := &dnsnode.Query{Proto: rq.Proto, Addr: netip.MustParseAddrPort(sources[rq.Src]), Name: f.name, Qtype: qtype,
		SNI: rq.SNI, Path: rq.Path, Host: rq.Host, NoTLS: rq.NoTLS, MsgID: uint16(1000 + r.seq)}
	var err error
	if f.p, err = r.n.Prepare(q); err != nil {
		return nil, err
	}
	f.ref = reference(r.sc, rq, f.p.DecodedPath)
	for _, id := range f.ref.ids {
		r.refIDs[id] = true
	}
	if f.ref.idFromPath != "" {
		r.refIDs[f.ref.idFromPath] = true
	}
	return f, nil
}

// collect indexes what reached the recorders and the upstream since last time.
func (r *runner) collect() {
	ql := r.n.QLog
	n := ql.Len()
	for _, e := range ql.Entries[r.logSeen:n] {
		k := strings.ToLower(e.Name)
		r.logs[k] = append(r.logs[k], e)
	}
	r.logSeen = n
	st := r.n.Stats
	n = st.Len()
	for _, e := range st.Updates[r.statSeen:n] {
		k := strings.ToLower(e.Domain) + "."
		r.stats[k] = append(r.stats[k], e.Client)
	}
	r.statSeen = n
	for _, e := range r.up.Since(r.upSeen) {
		k := strings.ToLower(e.Name)
		r.exch[k] = append(r.exch[k], e)
		r.upSeen++
	}
}

func describe(rq *Req, f *inflight) string {
	s := fmt.Sprintf("proto=%s", rq.Proto)
	if rq.Q != "" {
		s += " q=" + rq.Q
	}
	switch rq.Proto {
	case "tls", "quic":
		s += fmt.Sprintf(" sni=%q", short(rq.SNI))
	case "https":
		s += fmt.Sprintf(" raw_path=%q path=%q host=%q", short(rq.Path), short(f.p.DecodedPath), short(rq.Host))
		if rq.NoTLS {
			s += " plain-http"
		} else {
			s += fmt.Sprintf(" sni=%q", short(rq.SNI))
		}
	}
	return s
}

// judge compares what happened to one request with the reference.  It returns
// violations through r.report so that listed findings are tolerated.
func (r *runner) judge(tag string, f *inflight) error {
	rq, ref := f.rq, f.ref
	c := r.c
	desc := describe(rq, f)
	if f.p.BadHTTP {
		c.Probe("http_400_before_handler")
		c.Eventf("%s %s -> 400 by net/http, handler not reached", tag, desc)
		return nil
	}
	logs, stats, exch := r.logs[f.name], r.stats[f.name], r.exch[f.name]
	rcode := -1
	answers := 0
	if f.rep.Msg != nil {
		rcode = f.rep.Msg.Rcode
		answers = len(f.rep.Msg.Answer)
	}
	for _, o := range ref.open {
		c.Probe(o)
	}
	fail := func(class, format string, args ...any) error {
		v := kernel.Violationf(class, "%s [%s] server_name=%q strict=%v allowed=%s: %s", tag, desc, r.sc.ServerName, r.sc.Strict, ref, fmt.Sprintf(format, args...))
		if c.Tolerate(v) || replayTolerates[class] {
			c.Eventf("%s tolerated known finding %s", tag, class)
			return nil
		}
		return v
	}
	if f.rep.WireErr != nil {
		return fail("reply-malformed", "reply does not parse: %v", f.rep.WireErr)
	}
	if len(logs) > 1 || len(stats) > 1 {
		return fail("duplicate-record", "%d query-log records, %d statistics updates for one request", len(logs), len(stats))
	}
	upstreamFailed := false
	for _, e := range exch {
		if e.Fault == string(env.UpError) {
			upstreamFailed = true
			c.Fault(e.Fault)
		} else if e.Fault != "" {
			c.Fault(e.Fault)
		}
	}
	ip := netip.MustParseAddrPort(sources[rq.Src]).Addr().String()

	if len(logs) == 0 && !upstreamFailed {
		// The request was not processed.
		if len(exch) > 0 || len(stats) > 0 {
			c.Eventf("%s %s -> unlogged rcode=%d writes=%d http=%d allowed=%s", tag, desc, rcode, f.rep.Writes, f.rep.HTTPStatus, ref)
			return fail("failed-request-leaked", "no query-log record, but %d upstream exchanges and %d statistics updates", len(exch), len(stats))
		}
		if rq.Q != "" && (ref.none || len(ref.ids) > 0) && f.rep.Msg != nil && rcode != dns.RcodeServerFailure {
			// A question of a kind the server may answer by itself (a disabled
			// type, a refused type, a reserved name): the statement does not
			// say that such an answer is recorded anywhere, and the request
			// was not one that must fail.
			c.Probe("answered_by_server_unrecorded")
			c.Eventf("%s %s -> answered by the server itself rcode=%d answers=%d allowed=%s", tag, desc, rcode, answers, ref)
			return nil
		}
		c.Eventf("%s %s -> failed rcode=%d writes=%d http=%d allowed=%s", tag, desc, rcode, f.rep.Writes, f.rep.HTTPStatus, ref)
		if f.rep.Msg != nil && (rcode == dns.RcodeSuccess || answers > 0) {
			if rq.Q != "" && ref.why == "strict-foreign-name" && ref.idFromPath != "" {
				// Accepted on the strength of the path's identifier and then
				// answered by the server itself.
				return fail("strict-sni-bypassed-by-doh-path", "strict server-name checking is on and the server name is outside the configured domain, yet the request was accepted and answered (rcode=%d; path names ClientID %q)", rcode, ref.idFromPath)
			}
			return fail("unlogged-answer", "reply rcode=%d with %d answers, but nothing was logged", rcode, answers)
		}
		if !ref.fail {
			return fail("valid-request-failed", "the request was refused (rcode=%d) although the statement gives no reason", rcode)
		}
		c.Probe("rejected")
		switch {
		case f.rep.Msg == nil:
			c.Probe("rejected_without_reply")
		case rcode == dns.RcodeServerFailure:
			c.Probe("rejected_servfail")
		default:
			c.Probe("rejected_other_rcode")
		}
		switch ref.why {
		case "invalid-label":
			c.Probe("rejected_invalid_label")
			for _, ch := range rq.SNI + f.p.DecodedPath {
				if ch == 0x212a || ch == 0x017f || ch == 0x0130 || ch == 0x0131 || ch >= 0xff21 && ch <= 0xff5a {
					c.Probe("nonascii_lookalike_label")
					break
				}
			}
		case "extra-path-segments":
			c.Probe("rejected_extra_segments")
		case "strict-foreign-name":
			c.Probe("rejected_strict_foreign")
		}
		return nil
	}

	// The request was processed.  Its attribution, as the server recorded it:
	var id string
	if len(logs) == 1 {
		id = logs[0].ClientID
		if id != "" {
			// Whatever the verdict on it, the server now holds this identifier.
			r.attributed[id] = true
		}
		if logs[0].ClientIP != ip {
			return fail("wrong-client-address", "query log has client address %s, request came from %s", logs[0].ClientIP, ip)
		}
	}
	forwarded := len(exch) > 0
	if len(logs) == 1 {
		c.Eventf("%s %s -> processed id=%q forwarded=%v rcode=%d allowed=%s", tag, desc, short(id), forwarded, rcode, ref)
	} else {
		c.Eventf("%s %s -> upstream failed, unlogged, rcode=%d allowed=%s", tag, desc, rcode, ref)
	}
	if len(logs) == 1 {
		want := id
		if want == "" {
			want = ip
		}
		if len(stats) != 1 || stats[0] != want {
			return fail("stats-attribution-mismatch", "query log attributes the request to %q, statistics to %q", want, stats)
		}
		// The settings that were applied must be the ones of the client the
		// request is attributed to.
		wantForwarded := !f.blocked || r.filterOff[id]
		if forwarded != wantForwarded {
			return fail("settings-attribution-mismatch", "logged ClientID %q (filtering off: %v), blocked name: %v, but forwarded=%v", id, r.filterOff[id], f.blocked, forwarded)
		}
		if rq.Q != "" {
			c.Probe("special_question_processed")
		}
	} else {
		// The upstream failed, so nothing was logged; the only trace of the
		// attribution is which settings were applied.
		c.Probe("upstream_failed_unlogged")
		if len(ref.ids) == 0 && !ref.none {
			// Processed although failure is the only allowed outcome.
			switch {
			case ref.why == "strict-foreign-name" && ref.idFromPath != "":
				return fail("strict-sni-bypassed-by-doh-path", "strict server-name checking is on and the server name is outside the configured domain, yet the request was accepted and forwarded (path names ClientID %q)", ref.idFromPath)
			case ref.why == "strict-foreign-name":
				return fail("strict-sni-not-rejected", "strict server-name checking is on and the server name is outside the configured domain, yet the request was forwarded")
			case ref.why == "invalid-label":
				return fail("invalid-clientid-accepted", "the identifier is not a valid host-name label, yet the request was forwarded")
			case ref.why == "extra-path-segments":
				return fail("malformed-path-accepted", "the path has extra segments, yet the request was forwarded")
			}
			return fail("malformed-not-rejected", "forwarded although the statement demands failure")
		}
		if f.blocked {
			// Forwarded although the name is blocked globally: only a client
			// with filtering off explains it, and the reference must allow one.
			ok := false
			for _, x := range ref.ids {
				ok = ok || r.filterOff[x]
			}
			stale := false
			for x := range r.preReconf {
				stale = stale || (r.reconfs > 0 && r.filterOff[x])
			}
			switch {
			case ok:
			case stale:
				return fail("stale-clientid-after-reconfigure", "a blocked name was forwarded although no ClientID with filtering off is allowed here; requests handled before the latest reconfiguration carried one")
			default:
				return fail("settings-attribution-mismatch", "a blocked name was forwarded although no ClientID with filtering off is allowed here")
			}
		}
		return nil
	}

	// Is that attribution allowed?
	okAttr := (id == "" && ref.none) || (id != "" && ref.allowsID(id))
	if okAttr {
		if id != "" {
			c.Probe("id_attributed")
			r.attributed[id] = true
			if r.filterOff[id] && f.blocked {
				c.Probe("id_settings_applied")
			}
			switch {
			case rq.Proto == "https" && len(ref.ids) > 1:
				c.Probe("id_both_sources")
			case rq.Proto == "https" && rq.NoTLS && !refPathHasID(f):
				c.Probe("id_from_host_header")
			case rq.Proto == "https" && refPathHasID(f):
				c.Probe("id_from_path")
			case rq.Proto == "https":
				c.Probe("id_from_sni_doh")
			default:
				c.Probe("id_from_sni")
			}
			if id != asciiLower(id) || !validLabel(id) {
				return fail("unvalidated-clientid", "attributed ClientID %q is not a lower-cased valid label", id)
			}
		} else {
			c.Probe("processed_without_id")
		}
		if len(ref.open) > 0 {
			c.Probe("open_point_processed")
		}
		return nil
	}
	// An identifier that the request itself names in its DoH path is not stale.
	stale := r.reconfs > 0 && id != "" && r.preReconf[id] && ref.idFromPath != id
	switch {
	case stale:
		return fail("stale-clientid-after-reconfigure", "attributed to %q, an identifier that only requests handled before the latest reconfiguration carried", id)
	case id != "" && (rq.Proto == "udp" || rq.Proto == "tcp" || rq.Proto == "dnscrypt"):
		return fail("plain-carries-clientid", "a %s request was attributed to ClientID %q", rq.Proto, id)
	case id != "" && ref.why == "strict-foreign-name" && ref.idFromPath == id:
		return fail("strict-sni-bypassed-by-doh-path", "strict server-name checking is on and the server name is outside the configured domain, yet the request was accepted and attributed to the path's ClientID %q", id)
	case ref.why == "strict-foreign-name":
		return fail("strict-sni-not-rejected", "strict server-name checking is on and the server name is outside the configured domain, yet the request was processed (ClientID %q)", id)
	case id != "" && id != asciiLower(id) && ref.allowsID(asciiLower(id)):
		return fail("clientid-not-lowercased", "attributed ClientID %q is not lower-cased", id)
	case ref.why == "invalid-label" && len(ref.ids) == 0:
		return fail("invalid-clientid-accepted", "the identifier is not a valid host-name label, yet the request was processed (ClientID %q)", id)
	case ref.why == "extra-path-segments" && len(ref.ids) == 0:
		return fail("malformed-path-accepted", "the path has extra segments, yet the request was processed (ClientID %q)", id)
	case id == "" && len(ref.ids) > 0:
		return fail("clientid-lost", "the request names ClientID %v but was attributed to nobody", ref.ids)
	case id != "" && r.refIDs[id]:
		return fail("clientid-of-other-request", "attributed to %q, which this request does not name but another request of the case does", id)
	case id != "":
		return fail("wrong-clientid", "attributed to %q, which the request does not name", id)
	}
	return fail("malformed-not-rejected", "processed without ClientID although the statement demands failure")
}

func refPathHasID(f *inflight) bool {
	pv := refPath(f.p.DecodedPath)
	return len(pv.ids) > 0
}

func (r *runner) apply(i int, op *Op) error {
	c := r.c
	// Questions with a fixed name are told apart by operation (the generator
	// puts at most one of a kind into an operation).
	for _, name := range []string{"use-application-dns.net.", "healthcheck.adguardhome.test.", "_dns.resolver.arpa."} {
		delete(r.logs, name)
		delete(r.stats, name)
		delete(r.exch, name)
	}
	switch op.Kind {
	case "reconf":
		for id := range r.attributed {
			r.preReconf[id] = true
		}
		for id := range r.refIDs {
			// Also requests whose attribution left no record (upstream failed).
			r.preReconf[id] = true
		}
		if err := r.n.ReconfigureNoListen(); err != nil {
			return err
		}
		kernel.Wait()
		r.reconfs++
		c.Fault("reconfigure")
		c.Eventf("op %d reconfigure", i)
		return nil
	case "reconf_par":
		// The requests have been received (they have their request ids) when
		// the reconfiguration starts; the reconfiguration and their handling
		// run as concurrent tasks under the seeded cooperative scheduler.  A
		// request in flight across a reconfiguration is not judged (the
		// statement does not say what becomes of it); what it named counts as
		// named before the reconfiguration, so the requests that follow must
		// not inherit it.
		fl := make([]*inflight, len(op.Reqs))
		for j := range op.Reqs {
			f, err := r.prepare(&op.Reqs[j])
			if err != nil {
				return err
			}
			fl[j] = f
		}
		for id := range r.attributed {
			r.preReconf[id] = true
		}
		for id := range r.refIDs {
			r.preReconf[id] = true
		}
		names := []string{"reconfigure"}
		var reconfErr error
		fns := []func(){func() { reconfErr = r.n.ReconfigureNoListen() }}
		for _, f := range fl {
			names = append(names, "request")
			fns = append(fns, func() { f.rep = r.n.Handle(f.p) })
		}
		lat := r.up.Latency
		r.up.Latency, r.up.OnExchange = 0, func() { sched.Yield() }
		res := sched.Run(op.Seed, op.Pct, names, fns)
		r.up.Latency, r.up.OnExchange = lat, nil
		c.Probes["sched_steps"] += res.Steps
		c.Probes["sched_switches"] += res.Switches
		if res.Deadlock != "" {
			r.abandon = true
			return kernel.Violationf("deadlock: "+res.Deadlock, "op %d: a reconfiguration concurrent with %d requests, schedule seed %d: every task waits for a lock:\n%s", i, len(fl), op.Seed, res.Detail)
		}
		if reconfErr != nil {
			return reconfErr
		}
		kernel.Wait()
		r.reconfs++
		c.Fault("reconfigure")
		c.Fault("reconfigure_with_requests_in_flight")
		r.collect()
		c.Eventf("op %d reconfigure concurrent with %d requests (steps %d)", i, len(fl), res.Steps)
		return nil
	case "req":
		f, err := r.prepare(&op.Reqs[0])
		if err != nil {
			return err
		}
		f.rep = r.n.Handle(f.p)
		kernel.Wait()
		r.collect()
		return r.judge(fmt.Sprintf("op %d req", i), f)
	case "burst":
		// Phase 1: the listeners receive the requests, in index order (each
		// gets its RequestID now; DoH ones get theirs when the HTTP handler
		// starts).
		fl := make([]*inflight, len(op.Reqs))
		for j := range op.Reqs {
			f, err := r.prepare(&op.Reqs[j])
			if err != nil {
				return err
			}
			fl[j] = f
		}
		// Phase 2: the requests are handled in the drawn order, each on its
		// own goroutine; the next one starts when the previous one is parked
		// in the (sleeping) upstream or done, so that all of them are in
		// flight together and every interleaving choice is the scenario's.
		var wg sync.WaitGroup
		inOrder := true
		for k, j := range op.Order {
			if j != k {
				inOrder = false
			}
			f := fl[j]
			wg.Add(1)
			go func() {
				defer wg.Done()
				f.rep = r.n.Handle(f.p)
			}()
			kernel.Wait()
		}
		wg.Wait()
		kernel.Wait()
		c.Fault("burst_in_flight")
		if !inOrder {
			c.Fault("out_of_order_handling")
		}
		if len(op.Reqs) >= 33 {
			c.Probe("burst_33_or_more")
		}
		r.collect()
		for j, f := range fl {
			if err := r.judge(fmt.Sprintf("op %d burst[%d]", i, j), f); err != nil {
				return err
			}
		}
		return nil
	}
	return fmt.Errorf("harness: unknown op %q", op.Kind)
}

//go:embed known_findings.jsonl
var knownFindings string

// replayTolerates: the driver's replay mode does not tell the kernel which
// classes are listed findings, so a scenario that meets a listed finding before
// its own violation would replay as the listed one.  When replaying a file, the
// listed classes other than the file's own are therefore tolerated here, as
// they were during exploration.
var replayTolerates = func() map[string]bool {
	m := map[string]bool{}
	path := os.Getenv("VERIF_REPLAY")
	if path == "" || os.Getenv("VERIF_KNOWN") != "" {
		return m
	}
	var rf struct {
		Class string `json:"class"`
	}
	if b, err := os.ReadFile(path); err == nil {
		_ = json.Unmarshal(b, &rf)
	}
	for _, line := range strings.Split(knownFindings, "\n") {
		var k struct {
			Property string `json:"property"`
			Class    string `json:"class"`
		}
		if json.Unmarshal([]byte(line), &k) == nil && k.Property == "C16" && k.Class != "" && k.Class != rf.Class {
			m[k.Class] = true
		}
	}
	return m
}()

// Run executes one scenario.
func Run(t *testing.T, scAny any, c *kernel.Ctx) error {
	sc := scAny.(*Scenario)
	dnsnode.InitProcess()
	sched.Init()
	dir, err := kernel.TempDir("c16")
	if err != nil {
		return err
	}
	defer os.RemoveAll(dir)
	return kernel.Bubble(t, func() error {
		start := kernel.SimNow()
		r := &runner{sc: sc, c: c, faults: map[string]env.UpstreamFault{}, filterOff: map[string]bool{}, refIDs: map[string]bool{},
			preReconf: map[string]bool{}, attributed: map[string]bool{},
			logs: map[string][]dnsnode.LoggedQuery{}, stats: map[string][]string{}, exch: map[string][]env.Exchange{}}
		r.up = &env.Upstream{Addr: "sim-upstream:53", Answer: env.DefaultAnswer, Timeout: 3 * time.Second, Slow: 300 * time.Millisecond, Latency: 20 * time.Millisecond,
			NextFault: r.nextFault}
		cfg := &dnsnode.Config{Dir: dir, ListServer: env.NewListServer(), Upstream: r.up, UpTimeout: 2 * time.Second,
			ServerName: sc.ServerName, StrictSNI: sc.Strict}
		cfg.Filtering = filtering.Config{
			BlockingMode: filtering.BlockingModeDefault, BlockedResponseTTL: 10,
			ProtectionEnabled: true, FilteringEnabled: true, UserRules: []string{"||blocked.test^"},
			FiltersUpdateIntervalHours: 24, CacheTime: 30,
		}
		ids := append([]string{}, sc.FilterOff...)
		sort.Strings(ids)
		for k, id := range ids {
			r.filterOff[id] = true
			cfg.InitialClients = append(cfg.InitialClients, &client.Persistent{
				Name: fmt.Sprintf("client-%d", k), ClientIDs: []string{id}, UID: client.MustNewUID(),
				UseOwnSettings: true, FilteringEnabled: false,
				BlockedServices: &filtering.BlockedServices{Schedule: schedule.EmptyWeekly()},
			})
		}
		cfg.DNS = dnsforward.Config{CacheSize: 0, UpstreamMode: dnsforward.UpstreamModeLoadBalance,
			AAAADisabled: sc.AAAAOff, RefuseAny: sc.RefuseAny, HandleDDR: sc.DDR}
		n, err := dnsnode.New(cfg)
		if err != nil {
			return err
		}
		defer func() {
			if !r.abandon {
				n.Close()
			}
		}()
		r.n = n
		kernel.Wait()
		c.Eventf("node server_name=%q strict=%v aaaa_off=%v refuse_any=%v ddr=%v filter_off=%d", sc.ServerName, sc.Strict, sc.AAAAOff, sc.RefuseAny, sc.DDR, len(ids))
		for i := range sc.Ops {
			if err := r.apply(i, &sc.Ops[i]); err != nil {
				return err
			}
			c.Step()
		}
		c.SimTime += kernel.SimNow() - start
		return nil
	})
}

// Prop is the registration.
var Prop = &kernel.Property{
	ID:    "C16",
	Level: "exploration",
	Rule: "seeded cases (rapid): configured server name (none, two-label, three-label, mixed case), strict flag, persistent clients identified by ClientID with filtering off; ops = single requests and bursts of 2-64 requests of all six transports with generated server names (equal, immediate sub, deeper, sibling, parent, suffix lookalikes, appended suffix, empty, with port, trailing / leading dot, IP literal, letter-case variants of either part), Host headers (with / without / empty port, bracketed, malformed; over plain HTTP they are the server name), raw DoH request targets (no id, id, trailing / doubled / leading slashes, dot segments, extra segments, foreign endpoints, percent-escapes of dots, slashes, letters, whole segments) and valid / invalid labels (63 and 64+ octets, leading / trailing hyphen, underscore, space, control, non-ASCII, punctuation, valid labels with one letter replaced by a non-ASCII relative: KELVIN SIGN, LONG S, dotless / dotted I, full-width forms; the same replacement in the configured part of a server name); questions: A / AAAA / ANY for a name of the request's own, the browsers' canary domain, the healthcheck name, the resolver-discovery name, reverse questions for private addresses, with the server's settings AAAA-disabled / refuse-ANY / handle-DDR drawn per case, so that some requests are answered by the server before or without client identification; burst requests are received in index order and handled in a drawn order while the earlier ones are parked in a sleeping upstream; upstream error / SERVFAIL / slow answers; reconfiguration of the DNS server between requests; " +
		"non-trivial = at least one request was attributed to a ClientID, at least one was rejected, and at least one burst, reconfiguration or upstream fault happened; distinct = distinct scenario digests",
	Gen: Gen,
	New: func() any { return &Scenario{} },
	Run: Run,
	NonTrivial: func(_ any, c *kernel.Ctx) bool {
		f := 0
		for _, v := range c.Faults {
			f += v
		}
		return c.Probes["id_attributed"] > 0 && c.Probes["rejected"] > 0 && f > 0
	},
	Real: []string{"internal/dnsforward (HandleBefore, clientIDFromDNSContext and helpers, request-id keyed ClientID cache, processInitial, per-client filtering settings, query-log / statistics hand-over, Prepare on reconfiguration)", "dnsproxy request path (newDNSContext request ids, handleBefore, ServeHTTP, handleDNSRequest, respond*)", "net/http request-target parsing (http.ReadRequest)", "internal/client.Storage (lookup of persistent clients by ClientID)", "internal/filtering"},
	Stub: []string{"client sockets and TLS / QUIC handshakes (the negotiated server name is put into the fake connection state)", "upstream resolver (logs every question; seeded faults; sleeps on the simulated clock)", "query log and statistics (recorders)", "listeners (Reconfigure is run without its final listener start)", "wall clock (synctest)"},
	Assumptions: []string{
		"the DoH path the statement speaks of is URL.Path as net/http decodes it from the raw request target",
		"over plain HTTP the Host header (port stripped) plays the role of the server name; with TLS the handshake's server name does and the Host header is ignored",
		"left open by the statement, counted as probes, only 'never any other identifier' is asserted: letter case of the configured part of the server name; names deeper than an immediate subdomain; an empty leading label; non-canonical path spellings (either refused or treated as their RFC 3986 normal form); paths outside /dns-query; an empty server name or no configured name under strict checking; a DoH request whose path and server name both name an identifier (either one); malformed Host headers",
		"a request is 'failed' when it is neither logged, counted nor forwarded and its reply, if any, carries an error code and no answer; SERVFAIL vs other codes is counted, not asserted",
		"bursts stay far below the 1024-entry hand-off cache",
		"a request with a question the server may answer by itself (disabled or refused type, reserved name) that is answered without being logged, counted or forwarded is accepted when the statement allows the request to be processed; when the statement demands failure, a success reply is a violation as for any other request",
	},
	FaultKinds: []string{"upstream_error", "upstream_servfail", "upstream_slow", "burst_in_flight", "out_of_order_handling", "reconfigure", "reconfigure_with_requests_in_flight"},
	ProbeNames: []string{"sched_steps", "sched_switches", "id_attributed", "id_settings_applied", "id_from_sni", "id_from_sni_doh", "id_from_path", "id_from_host_header", "id_both_sources", "processed_without_id",
		"rejected", "rejected_servfail", "rejected_invalid_label", "rejected_extra_segments", "rejected_strict_foreign",
		"open_configured_name_case", "open_deeper_subdomain", "open_empty_label_name", "open_noncanonical_path", "open_not_a_doh_path", "open_strict_empty_name", "open_strict_without_configured_name", "open_path_and_name_both_name_ids", "open_malformed_host_header", "open_point_processed",
		"http_400_before_handler", "upstream_failed_unlogged", "burst_33_or_more", "answered_by_server_unrecorded", "special_question_processed", "nonascii_lookalike_label"},
}
