// Package c12 decides property C12 (login throttling stops guessing; a session
// token authenticates only between its creation and its expiry or logout,
// also after a restart) by deterministic simulation: the real home.Auth on a
// real bbolt sessions.db, the real authRateLimiter and the real middleware
// chain (postInstall / optionalAuth / gzip / ensure, behind limitRequestBody)
// on the real mux, under the fake clock of a synctest bubble, driven by seeded
// timed histories of logins from several addresses, authenticated requests
// with held cookies, logouts, clock advances aimed at the edges of the attempt
// window, the block, the session expiry and UTC midnight, restarts and
// crashes, with a reference model written from the statement.
package c12

import (
	"encoding/json"
	"fmt"
	"net/http"
	"strings"
	"testing"
	"time"

	"github.com/AdguardTeam/AdGuardHome/verifsim/homesim"
	"github.com/AdguardTeam/AdGuardHome/verifsim/kernel"
	"github.com/AdguardTeam/AdGuardHome/verifsim/sched"
	"pgregory.net/rapid"
)

// Op is one generated operation.
type Op struct {
	// K: login | req | logout | basic | adv | restart | crash
	K string `json:"k"`
	// Ms is the clock advance of "adv", in milliseconds.
	Ms int64 `json:"ms,omitempty"`
	// Addr is the index of the client address, Port its source port.
	Addr int `json:"a,omitempty"`
	Port int `json:"p,omitempty"`
	// PW: 0 right credentials; 1 wrong password; 2 wrong user name with the
	// right password; 3 empty password.
	PW int `json:"pw,omitempty"`
	// Tok selects the cookie: >=0 the (Tok mod issued)-th token issued so far;
	// <0 (or nothing issued yet) a token that was never issued.
	Tok int `json:"tok,omitempty"`
	// Hdr: 0 none; 1..3 a proxy header naming ANOTHER address (the client is
	// never a trusted proxy, so the header must not matter).
	Hdr int `json:"hdr,omitempty"`
	// Path selects the protected resource of "req".
	Path int `json:"path,omitempty"`
	// "par": a request and a logout with the same cookie (and, with N > 0, a
	// second request) run as concurrent tasks under the seeded cooperative
	// scheduler: Seed picks the interleaving at the lock boundaries, Pct is
	// the preemption probability.
	N    int    `json:"n,omitempty"`
	Seed uint64 `json:"seed,omitempty"`
	Pct  int    `json:"pct,omitempty"`
}

// Scenario is one case.
type Scenario struct {
	Attempts      int   `json:"attempts"`
	BlockMs       int64 `json:"block_ms"`
	TTLs          int64 `json:"ttl_s"`
	StartMs       int64 `json:"start_ms"`
	JustInstalled bool  `json:"just_installed,omitempty"`
	Ops           []Op  `json:"ops"`
}

const (
	secMs  = int64(1000)
	minMs  = 60 * secMs
	hourMs = 60 * minMs
	dayMs  = 24 * hourMs
	// windowMs is "within a minute" of the statement.
	windowMs = minMs
)

var (
	addrs     = []string{"192.0.2.1", "192.0.2.2", "2001:db8::1", "10.1.1.1"}
	proxyHdrs = []string{"", "X-Real-IP", "X-Forwarded-For", "CF-Connecting-IP"}
	reqPaths  = []string{"/control/profile", "/control/i18n/current_language", "/"}
	blocks    = []int64{1 * secMs, 2 * secMs, 30 * secMs, 59 * secMs, 60 * secMs, 61 * secMs, 15 * minMs, hourMs}
	ttls      = []int64{60, 61, 120, 3600, 86399, 86400, 86401, 2 * 86400, 30 * 86400}
	// kindTable interleaves the operation kinds (rapid favours small indices).
	kindTable = []string{"login", "adv", "req", "login", "adv", "login", "req", "logout", "adv", "par", "login", "basic", "restart", "login", "req", "adv", "crash", "login", "req", "adv", "login", "par"}
	unknowns  = []string{"000102030405060708090a0b0c0d0e0f", "not-hex-at-all", "00"}
)

// Gen draws a scenario.  It tracks simulated time and a list of instants at
// which something is due (end of an attempt window, end of a block, session
// expiry, UTC midnight) so that clock advances can be aimed at them.
func Gen(t *rapid.T, tier string) any {
	sc := &Scenario{}
	if rapid.IntRange(0, 2).Draw(t, "attempts_kind") == 0 {
		sc.Attempts = rapid.IntRange(1, 10).Draw(t, "attempts")
	} else {
		sc.Attempts = rapid.IntRange(1, 4).Draw(t, "attempts_small")
	}
	if rapid.IntRange(0, 3).Draw(t, "block_kind") == 0 {
		sc.BlockMs = int64(rapid.IntRange(1, 3600).Draw(t, "block_s")) * secMs
	} else {
		sc.BlockMs = rapid.SampledFrom(blocks).Draw(t, "block")
	}
	if rapid.IntRange(0, 3).Draw(t, "ttl_kind") == 0 {
		sc.TTLs = int64(rapid.IntRange(60, 30*86400).Draw(t, "ttl_s"))
	} else {
		sc.TTLs = rapid.SampledFrom(ttls).Draw(t, "ttl")
	}
	switch rapid.IntRange(0, 3).Draw(t, "start_kind") {
	case 0:
		sc.StartMs = 0
	case 1:
		sc.StartMs = dayMs - int64(rapid.IntRange(0, 90).Draw(t, "start_before_midnight_s"))*secMs
	default:
		sc.StartMs = int64(rapid.IntRange(0, 3*86400).Draw(t, "start_s"))*secMs + int64(rapid.IntRange(0, 999).Draw(t, "start_ms"))
	}
	sc.JustInstalled = rapid.IntRange(0, 3).Draw(t, "just_installed") == 0
	nAddr := rapid.IntRange(1, 4).Draw(t, "n_addr")
	maxOps := 40
	if tier == "thorough" {
		maxOps = 80
	}
	n := rapid.IntRange(4, maxOps).Draw(t, "n_ops")

	now := sc.StartMs
	targets := []int64{}
	push := func(v int64) {
		targets = append(targets, v)
		if len(targets) > 12 {
			targets = targets[len(targets)-12:]
		}
	}
	issued := 0
	for i := 0; i < n; i++ {
		var op Op
		switch k := rapid.SampledFrom(kindTable).Draw(t, "kind"); k {
		case "login":
			op = Op{K: "login", Addr: rapid.IntRange(0, nAddr-1).Draw(t, "addr"), Port: rapid.IntRange(1024, 1027).Draw(t, "port")}
			switch p := rapid.IntRange(0, 9).Draw(t, "pw"); {
			case p < 3:
				op.PW = 0
			case p < 8:
				op.PW = 1
			case p < 9:
				op.PW = 2
			default:
				op.PW = 3
			}
			if rapid.IntRange(0, 5).Draw(t, "hdr_on") == 0 {
				op.Hdr = rapid.IntRange(1, 3).Draw(t, "hdr")
			}
			if op.PW == 0 {
				issued++
				push(now + sc.TTLs*secMs)
			} else {
				push(now + windowMs)
				push(now + sc.BlockMs)
			}
		case "req":
			op = Op{K: "req", Path: rapid.IntRange(0, len(reqPaths)-1).Draw(t, "path")}
			if rapid.IntRange(0, 7).Draw(t, "tok_unknown") == 0 || issued == 0 {
				op.Tok = -rapid.IntRange(1, len(unknowns)).Draw(t, "unknown_tok")
			} else {
				op.Tok = rapid.IntRange(0, issued-1).Draw(t, "tok")
				push(now + sc.TTLs*secMs)
			}
		case "par":
			if issued == 0 {
				op = Op{K: "req", Tok: -1}
				break
			}
			op = Op{K: "par", Tok: rapid.IntRange(0, issued-1).Draw(t, "tok"), Path: rapid.IntRange(0, len(reqPaths)-1).Draw(t, "path"),
				N: rapid.IntRange(0, 1).Draw(t, "par_n"), Seed: rapid.Uint64().Draw(t, "par_seed"), Pct: rapid.SampledFrom([]int{20, 50, 80}).Draw(t, "par_pct")}
			// Often in the setting in which the two operations have most to
			// disagree about: the first use of the session on a later day (its
			// stored expiry is rewritten), and a restart plus a use of the
			// cookie afterwards (what is on disk decides).
			if rapid.Bool().Draw(t, "par_after_day") {
				ms := (now/dayMs+1)*dayMs - now + int64(rapid.IntRange(0, 3600).Draw(t, "par_day_s"))*secMs
				if ms < sc.TTLs*secMs {
					sc.Ops = append(sc.Ops, Op{K: "adv", Ms: ms})
					now += ms
				}
			}
			if rapid.Bool().Draw(t, "par_then_restart") {
				sc.Ops = append(sc.Ops, op)
				sc.Ops = append(sc.Ops, Op{K: rapid.SampledFrom([]string{"restart", "crash"}).Draw(t, "par_restart_kind")})
				op = Op{K: "req", Tok: op.Tok, Path: op.Path}
			}
		case "logout":
			op = Op{K: "logout"}
			if issued == 0 {
				op.Tok = -1
			} else {
				op.Tok = rapid.IntRange(0, issued-1).Draw(t, "tok")
			}
		case "basic":
			op = Op{K: "basic", Addr: rapid.IntRange(0, nAddr-1).Draw(t, "addr"), Port: 2000, PW: rapid.SampledFrom([]int{0, 0, 1, 2}).Draw(t, "basic_pw")}
		case "adv":
			op = Op{K: "adv"}
			switch a := rapid.IntRange(0, 11).Draw(t, "adv_kind"); {
			case a < 2:
				op.Ms = int64(rapid.IntRange(0, 2000).Draw(t, "adv_ms"))
			case a < 4:
				op.Ms = int64(rapid.IntRange(1, 70).Draw(t, "adv_s")) * secMs
			case a < 8 && len(targets) > 0:
				tg := rapid.SampledFrom(targets).Draw(t, "adv_target")
				d := rapid.SampledFrom([]int64{-1500, -1000, -1, 0, 0, 1, 1000, 1500}).Draw(t, "adv_delta")
				op.Ms = tg + d - now
			case a < 10:
				next := (now/dayMs + 1) * dayMs
				op.Ms = next - now + int64(rapid.IntRange(-2, 2).Draw(t, "adv_midnight_s"))*secMs
			case a < 11:
				op.Ms = int64(rapid.IntRange(1, 48).Draw(t, "adv_h")) * hourMs
			default:
				op.Ms = int64(rapid.IntRange(1, 31).Draw(t, "adv_d"))*dayMs + int64(rapid.IntRange(-1, 1).Draw(t, "adv_d_s"))*secMs
			}
			if op.Ms < 0 {
				op.Ms = int64(rapid.IntRange(0, 1500).Draw(t, "adv_fallback_ms"))
			}
			now += op.Ms
		case "restart":
			op = Op{K: "restart"}
		default:
			op = Op{K: "crash"}
		}
		sc.Ops = append(sc.Ops, op)
	}
	return sc
}

// ---------------------------------------------------------------------------
// Reference model (from the statement).

// addrModel is the throttle state of one client address.
type addrModel struct {
	// count is the number of failed logins since the last success, block end
	// or window end; windowEnd = first of them + one minute.
	count     int
	windowEnd int64
	// blockedUntil = instant of the failure that reached the limit + block
	// duration; 0 = not blocked.
	blockedUntil int64
	// unknownUntil: an attempt fell exactly on an edge, where either outcome
	// is acceptable; the state is not asserted until every reading has
	// converged to "nothing recorded".
	unknownUntil int64
	unknown      bool
}

func (a *addrModel) reset() { a.count, a.windowEnd, a.blockedUntil = 0, 0, 0 }

type tokModel struct {
	value     string
	created   int64
	lastUse   int64
	loggedOut bool
}

type sim struct {
	sc     *Scenario
	c      *kernel.Ctx
	n      *homesim.Node
	addr   [4]addrModel
	tokens []*tokModel
	// abandon: a deadlock was found; the parked tasks hold locks of the node.
	abandon bool
}

func (s *sim) now() int64 { return time.Since(kernel.Epoch).Milliseconds() }

func maxI(a, b int64) int64 {
	if a > b {
		return a
	}
	return b
}

// state resolves the throttle state of address i at instant t: "blocked",
// "free" or "unknown".
func (s *sim) state(i int, t int64) string {
	a := &s.addr[i]
	if a.unknown {
		if t <= a.unknownUntil {
			return "unknown"
		}
		a.unknown = false
		a.reset()
	}
	edge := func() string {
		s.c.Probe("edge_instant_throttle")
		a.unknown = true
		a.unknownUntil = t + maxI(windowMs, s.sc.BlockMs)
		return "unknown"
	}
	if a.blockedUntil != 0 {
		switch {
		case t < a.blockedUntil:
			return "blocked"
		case t == a.blockedUntil:
			return edge()
		}
		s.c.Probe("block_elapsed")
		a.reset()
	} else if a.count > 0 {
		switch {
		case t == a.windowEnd:
			return edge()
		case t > a.windowEnd:
			s.c.Probe("window_elapsed_count_restarts")
			a.reset()
		}
	}
	return "free"
}

func remoteAddr(i, port int) string {
	ip := addrs[i]
	if strings.Contains(ip, ":") {
		return fmt.Sprintf("[%s]:%d", ip, port)
	}
	return fmt.Sprintf("%s:%d", ip, port)
}

func creds(pw int) (user, pass string) {
	switch pw {
	case 0:
		return homesim.User, homesim.Password
	case 1:
		return homesim.User, "wrong-password"
	case 2:
		return "root", homesim.Password
	default:
		return homesim.User, ""
	}
}

func (s *sim) do(r *homesim.Req) (*homesim.Resp, error) {
	resp, err := s.n.Do(r)
	if err != nil {
		if hp, ok := err.(*homesim.HandlerPanic); ok {
			return nil, kernel.Violationf("handler-panic", "%v", hp)
		}
		return nil, err
	}
	return resp, nil
}

func (s *sim) login(op *Op) error {
	t := s.now()
	user, pass := creds(op.PW)
	pwOK := op.PW == 0
	body, _ := json.Marshal(map[string]string{"name": user, "password": pass})
	req := &homesim.Req{
		Method: http.MethodPost, Target: "/control/login", RemoteAddr: remoteAddr(op.Addr, op.Port),
		ContentType: "application/json", Body: body,
	}
	if op.Hdr > 0 {
		req.Header = map[string]string{proxyHdrs[op.Hdr]: addrs[(op.Addr+1)%len(addrs)]}
		s.c.Probe("proxy_header_from_untrusted_client")
	}
	memB, diskB := s.n.H.Sessions()
	st := s.state(op.Addr, t)
	resp, err := s.do(req)
	if err != nil {
		return err
	}
	memA, diskA := s.n.H.Sessions()
	tokName := ""
	if resp.Code == http.StatusOK && resp.SessionCookie != nil && resp.SessionCookie.Value != "" {
		s.tokens = append(s.tokens, &tokModel{value: resp.SessionCookie.Value, created: t, lastUse: t})
		tokName = fmt.Sprintf(" cookie=T%d", len(s.tokens)-1)
	}
	s.c.Eventf("t=%d login a=%d pw=%d hdr=%d model=%s -> %d%s retry_after=%q sessions=%d/%d", t, op.Addr, op.PW, op.Hdr, st, resp.Code, tokName, resp.RetryAfter, memA, diskA)
	s.c.Probe("login_attempt")

	// What holds in every state.
	switch resp.Code {
	case http.StatusOK:
		if !pwOK {
			return kernel.Violationf("wrong-credentials-accepted", "t=%d login from %s with pw kind %d answered 200", t, addrs[op.Addr], op.PW)
		}
		if tokName == "" {
			return kernel.Violationf("login-ok-without-cookie", "t=%d login answered 200 without a session cookie", t)
		}
		if memA != memB+1 || diskA != diskB+1 {
			return kernel.Violationf("session-not-stored", "t=%d successful login: sessions in memory %d->%d, in file %d->%d", t, memB, memA, diskB, diskA)
		}
	case http.StatusForbidden, http.StatusTooManyRequests:
		if resp.SessionCookie != nil || memA != memB || diskA != diskB {
			return kernel.Violationf("session-created-by-rejected-login", "t=%d login answered %d but sessions in memory %d->%d, in file %d->%d, set-cookie=%v", t, resp.Code, memB, memA, diskB, diskA, resp.SessionCookie != nil)
		}
	default:
		return kernel.Violationf("login-status", "t=%d login answered %d %q", t, resp.Code, resp.Body)
	}
	if resp.Code == http.StatusTooManyRequests && resp.RetryAfter != "" {
		s.c.Probe("retry_after_present")
	}

	a := &s.addr[op.Addr]
	switch st {
	case "unknown":
		// Either outcome; every further attempt moves the point of convergence.
		a.unknownUntil = t + maxI(windowMs, s.sc.BlockMs)
		s.c.Probe("login_in_unasserted_state")
	case "blocked":
		if pwOK {
			s.c.Probe("right_password_inside_block")
		}
		switch resp.Code {
		case http.StatusTooManyRequests:
			s.c.Probe("blocked_login_rejected")
		case http.StatusOK:
			return kernel.Violationf("throttle-right-password-accepted-in-block", "t=%d address %s is blocked until %d (limit %d, block %d ms) but a login with the right password answered 200", t, addrs[op.Addr], a.blockedUntil, s.sc.Attempts, s.sc.BlockMs)
		default:
			return kernel.Violationf("throttle-password-evaluated-in-block", "t=%d address %s is blocked until %d (limit %d, block %d ms) but a login answered %d instead of 429", t, addrs[op.Addr], a.blockedUntil, s.sc.Attempts, s.sc.BlockMs, resp.Code)
		}
	case "free":
		if resp.Code == http.StatusTooManyRequests {
			return kernel.Violationf("throttle-spurious-block", "t=%d address %s has %d failed logins in the current window (limit %d) and is not blocked, but a login answered 429", t, addrs[op.Addr], a.count, s.sc.Attempts)
		}
		if pwOK {
			if resp.Code != http.StatusOK {
				return kernel.Violationf("right-password-rejected", "t=%d address %s not blocked, right credentials answered %d", t, addrs[op.Addr], resp.Code)
			}
			if a.count > 0 {
				s.c.Probe("success_clears_count")
			}
			a.reset()
		} else {
			a.count++
			if a.count == 1 {
				a.windowEnd = t + windowMs
			}
			if a.count >= s.sc.Attempts {
				a.blockedUntil = t + s.sc.BlockMs
				s.c.Probe("limit_reached")
			}
		}
	}
	return nil
}

// cookieFor returns the cookie value and the token model (nil for a token that
// was never issued).
func (s *sim) cookieFor(tok int) (string, *tokModel, string) {
	if tok < 0 || len(s.tokens) == 0 {
		i := 0
		if tok < 0 {
			i = (-tok - 1) % len(unknowns)
		}
		return unknowns[i], nil, fmt.Sprintf("U%d", i)
	}
	i := tok % len(s.tokens)
	return s.tokens[i].value, s.tokens[i], fmt.Sprintf("T%d", i)
}

// expect returns what the statement says about token m at instant t: "valid",
// "invalid" or "either".
func (s *sim) expect(m *tokModel, t int64) string {
	ttl := s.sc.TTLs * secMs
	switch {
	case m == nil, m.loggedOut:
		return "invalid"
	case t > m.lastUse+ttl:
		// Upper bound valid for any sliding-expiry scheme.
		return "invalid"
	case t <= m.created+ttl-secMs:
		// The stored expiry has a resolution of one second.
		return "valid"
	}
	if t == m.lastUse+ttl || t == m.created+ttl {
		s.c.Probe("edge_instant_expiry")
	}
	return "either"
}

// authenticated classifies a response to a request for a protected resource.
func authenticated(path string, resp *homesim.Resp) (ok bool, err error) {
	switch {
	case resp.Code == http.StatusOK:
		return true, nil
	case resp.Code == http.StatusForbidden:
		return false, nil
	case resp.Code == http.StatusFound && path == "/" && strings.HasSuffix(resp.Location, "login.html"):
		return false, nil
	}
	return false, kernel.Violationf("request-status", "GET %s answered %d location=%q", path, resp.Code, resp.Location)
}

func (s *sim) request(op *Op) error {
	t := s.now()
	val, m, name := s.cookieFor(op.Tok)
	path := reqPaths[op.Path%len(reqPaths)]
	exp := s.expect(m, t)
	resp, err := s.do(&homesim.Req{Method: http.MethodGet, Target: path, RemoteAddr: remoteAddr(0, 3000), Cookie: val})
	if err != nil {
		return err
	}
	ok, err := authenticated(path, resp)
	mem, disk := s.n.H.Sessions()
	s.c.Eventf("t=%d req %s cookie=%s model=%s -> %d sessions=%d/%d", t, path, name, exp, resp.Code, mem, disk)
	if err != nil {
		return err
	}
	s.c.Probe("request_with_cookie")
	return s.judge(m, name, t, exp, ok, "GET "+path)
}

func (s *sim) judge(m *tokModel, name string, t int64, exp string, ok bool, what string) error {
	ttl := s.sc.TTLs * secMs
	switch {
	case exp == "invalid" && ok:
		switch {
		case m == nil:
			return kernel.Violationf("unknown-token-accepted", "t=%d %s with never-issued cookie %s was authenticated", t, what, name)
		case m.loggedOut:
			return kernel.Violationf("session-valid-after-logout", "t=%d %s with cookie %s (created %d, logged out) was authenticated", t, what, name, m.created)
		default:
			return kernel.Violationf("session-valid-after-expiry", "t=%d %s with cookie %s (created %d, last authenticated use %d, ttl %d ms: dead since %d) was authenticated", t, what, name, m.created, m.lastUse, ttl, m.lastUse+ttl)
		}
	case exp == "valid" && !ok:
		return kernel.Violationf("session-rejected-while-valid", "t=%d %s with cookie %s (created %d, ttl %d ms, not logged out: valid at least until %d) was refused", t, what, name, m.created, ttl, m.created+ttl)
	}
	if m != nil {
		if ok {
			if t > m.created+ttl {
				s.c.Probe("token_alive_past_created_plus_ttl")
			}
			if t/dayMs != m.lastUse/dayMs {
				s.c.Probe("use_on_a_later_day")
			}
			m.lastUse = t
		} else if !m.loggedOut {
			s.c.Probe("expired_token_refused")
		} else {
			s.c.Probe("logged_out_token_refused")
		}
	} else {
		s.c.Probe("unknown_token_refused")
	}
	return nil
}

func (s *sim) logout(op *Op) error {
	t := s.now()
	val, m, name := s.cookieFor(op.Tok)
	exp := s.expect(m, t)
	resp, err := s.do(&homesim.Req{Method: http.MethodGet, Target: "/control/logout", RemoteAddr: remoteAddr(0, 3001), Cookie: val})
	if err != nil {
		return err
	}
	mem, disk := s.n.H.Sessions()
	s.c.Eventf("t=%d logout cookie=%s model=%s -> %d location=%q sessions=%d/%d", t, name, exp, resp.Code, resp.Location, mem, disk)
	var ok bool
	switch {
	case resp.Code == http.StatusFound && strings.HasSuffix(resp.Location, "login.html"):
		ok = true
	case resp.Code == http.StatusForbidden:
	default:
		return kernel.Violationf("logout-status", "t=%d logout answered %d location=%q", t, resp.Code, resp.Location)
	}
	if err = s.judge(m, name, t, exp, ok, "GET /control/logout"); err != nil {
		return err
	}
	if ok && m != nil {
		m.loggedOut = true
		s.c.Probe("logout_done")
	}
	return nil
}

// par runs a request and a logout with the same cookie as concurrent tasks.
// Whatever the interleaving, the logout of a valid session succeeds and the
// session is dead afterwards (the later operations and restarts of the history
// check that); the request may see the session or not.
func (s *sim) par(op *Op) error {
	t := s.now()
	val, m, name := s.cookieFor(op.Tok)
	path := reqPaths[op.Path%len(reqPaths)]
	exp := s.expect(m, t)
	type out struct {
		resp *homesim.Resp
		err  error
	}
	outs := make([]out, 2+op.N)
	names := []string{"logout", "req"}
	fns := []func(){
		func() {
			outs[0].resp, outs[0].err = s.do(&homesim.Req{Method: http.MethodGet, Target: "/control/logout", RemoteAddr: remoteAddr(0, 3001), Cookie: val})
		},
		func() {
			outs[1].resp, outs[1].err = s.do(&homesim.Req{Method: http.MethodGet, Target: path, RemoteAddr: remoteAddr(0, 3000), Cookie: val})
		},
	}
	if op.N > 0 {
		names = append(names, "req")
		fns = append(fns, func() {
			outs[2].resp, outs[2].err = s.do(&homesim.Req{Method: http.MethodGet, Target: path, RemoteAddr: remoteAddr(0, 3002), Cookie: val})
		})
	}
	res := sched.Run(op.Seed, op.Pct, names, fns)
	s.c.Fault("concurrent_request_and_logout")
	s.c.Probes["sched_steps"] += res.Steps
	s.c.Probes["sched_switches"] += res.Switches
	if res.Deadlock != "" {
		s.abandon = true
		return kernel.Violationf("deadlock: "+res.Deadlock, "t=%d concurrent logout and request with cookie %s, schedule seed %d: every task waits for a lock:\n%s", t, name, op.Seed, res.Detail)
	}
	for _, o := range outs {
		if o.err != nil {
			return o.err
		}
	}
	mem, disk := s.n.H.Sessions()
	s.c.Eventf("t=%d par cookie=%s model=%s logout -> %d req -> %d steps=%d sessions=%d/%d", t, name, exp, outs[0].resp.Code, outs[1].resp.Code, res.Steps, mem, disk)
	// The requests: never authenticated with a dead cookie; with a live one
	// either outcome, since the logout may have come first.
	reqExp := exp
	if reqExp == "valid" {
		reqExp = "either"
	}
	for _, o := range outs[1:] {
		ok, err := authenticated(path, o.resp)
		if err != nil {
			return err
		}
		if err = s.judge(m, name, t, reqExp, ok, "GET "+path+" concurrent with a logout"); err != nil {
			return err
		}
	}
	var ok bool
	switch lo := outs[0].resp; {
	case lo.Code == http.StatusFound && strings.HasSuffix(lo.Location, "login.html"):
		ok = true
	case lo.Code == http.StatusForbidden:
	default:
		return kernel.Violationf("logout-status", "t=%d logout answered %d location=%q", t, lo.Code, lo.Location)
	}
	if err := s.judge(m, name, t, exp, ok, "GET /control/logout concurrent with a request"); err != nil {
		return err
	}
	if ok && m != nil {
		m.loggedOut = true
		s.c.Probe("logout_done")
	}
	return nil
}

func (s *sim) basic(op *Op) error {
	t := s.now()
	user, pass := creds(op.PW)
	st := s.state(op.Addr, t)
	resp, err := s.do(&homesim.Req{Method: http.MethodGet, Target: "/control/profile", RemoteAddr: remoteAddr(op.Addr, op.Port), BasicUser: user, BasicPass: pass})
	if err != nil {
		return err
	}
	s.c.Eventf("t=%d basic a=%d pw=%d model=%s -> %d", t, op.Addr, op.PW, st, resp.Code)
	s.c.Probe("basic_credentials_request")
	ok, err := authenticated("/control/profile", resp)
	if err != nil {
		return err
	}
	if ok && op.PW != 0 {
		return kernel.Violationf("wrong-credentials-accepted", "t=%d request with wrong basic credentials (kind %d) was authenticated", t, op.PW)
	}
	if st == "blocked" {
		s.c.Probe("basic_credentials_inside_block")
		if ok {
			a := &s.addr[op.Addr]
			v := kernel.Violationf("throttle-bypass-basic-auth", "t=%d address %s is blocked until %d after %d failed logins, yet a request carrying basic credentials had its password evaluated and was authenticated (200); wrong basic credentials answer 403, so guessing continues during the block", t, addrs[op.Addr], a.blockedUntil, s.sc.Attempts)
			if !s.c.Tolerate(v) {
				return v
			}
		}
	}
	return nil
}

func (s *sim) restart(clean bool) error {
	t := s.now()
	for i := range s.addr {
		if s.state(i, t) == "blocked" {
			// The failed-attempt table is process memory; what a restart does
			// to a running block is not stated and not asserted.
			s.c.Probe("restart_inside_block")
		}
		s.addr[i] = addrModel{}
	}
	if err := s.n.H.RestartAuth(clean); err != nil {
		return fmt.Errorf("harness: restart: %w", err)
	}
	mem, disk := s.n.H.Sessions()
	if clean {
		s.c.Fault("clean_restart")
	} else {
		s.c.Fault("process_crash")
	}
	live := 0
	for _, m := range s.tokens {
		if s.expect(m, t) == "valid" {
			live++
		}
	}
	if live > 0 {
		s.c.Probe("restart_with_live_sessions")
	}
	s.c.Eventf("t=%d restart clean=%v sessions=%d/%d", t, clean, mem, disk)
	return nil
}

// Run executes one scenario.
func Run(t *testing.T, scAny any, c *kernel.Ctx) error {
	sc := scAny.(*Scenario)
	if sc.Attempts < 1 || sc.BlockMs < 1 || sc.TTLs < 1 {
		return fmt.Errorf("harness: bad scenario knobs")
	}
	sched.Init()
	return kernel.Bubble(t, func() error {
		if sc.StartMs > 0 {
			time.Sleep(time.Duration(sc.StartMs) * time.Millisecond)
		}
		n, err := homesim.New(homesim.Conf{
			SessionTTL:    uint32(sc.TTLs),
			Attempts:      uint(sc.Attempts),
			BlockDur:      time.Duration(sc.BlockMs) * time.Millisecond,
			JustInstalled: sc.JustInstalled,
		})
		if err != nil {
			return err
		}
		s := &sim{sc: sc, c: c, n: n}
		defer func() {
			if !s.abandon {
				n.Close()
			}
		}()
		c.Eventf("node attempts=%d block_ms=%d ttl_s=%d start_ms=%d just_installed=%v", sc.Attempts, sc.BlockMs, sc.TTLs, sc.StartMs, sc.JustInstalled)
		for i := range sc.Ops {
			op := &sc.Ops[i]
			switch op.K {
			case "login":
				err = s.login(op)
			case "req":
				err = s.request(op)
			case "logout":
				err = s.logout(op)
			case "par":
				err = s.par(op)
			case "basic":
				err = s.basic(op)
			case "adv":
				before := s.now()
				time.Sleep(time.Duration(op.Ms) * time.Millisecond)
				c.SimTime += time.Duration(op.Ms) * time.Millisecond
				if op.Ms >= hourMs {
					c.Fault("clock_jump_hours")
				}
				if s.now()/dayMs != before/dayMs {
					c.Probe("midnight_crossed")
				}
				c.Eventf("t=%d adv %d", s.now(), op.Ms)
			case "restart":
				err = s.restart(true)
			case "crash":
				err = s.restart(false)
			default:
				err = fmt.Errorf("harness: unknown op %q", op.K)
			}
			if err != nil {
				return err
			}
			c.Step()
		}
		return nil
	})
}

// Prop is the property.
var Prop = &kernel.Property{
	ID:    "C12",
	Level: "exploration",
	Rule: "seeded histories (rapid) of logins (right / wrong password, wrong user, empty password; 1-4 addresses incl. IPv6; spoofed proxy headers), requests and logouts with held, never-issued and malformed cookies, requests with basic credentials, clock advances (ms .. 31 d, aimed at attempt-window, block, session-expiry and UTC-midnight edges +-1 ms/1 s), clean restarts and crashes, with limiter knobs (attempts 1-10, block 1 s-1 h) and session TTL (60 s-30 d) drawn per case, against the real home.Auth + bbolt sessions.db + authRateLimiter behind the real middleware chain under a fake clock; " +
		"a case is non-trivial when it made >=1 login attempt and >=1 cookie request and saw >=1 clock advance, restart or crash; distinct = distinct scenario digests",
	Gen: Gen,
	New: func() any { return &Scenario{} },
	Run: Run,
	NonTrivial: func(scAny any, c *kernel.Ctx) bool {
		adv := false
		for _, op := range scAny.(*Scenario).Ops {
			if op.K == "adv" && op.Ms > 0 {
				adv = true
			}
		}
		return c.Probes["login_attempt"] > 0 && c.Probes["request_with_cookie"] > 0 && (adv || c.Faults["clean_restart"] > 0 || c.Faults["process_crash"] > 0)
	},
	Real: []string{"internal/home: Auth (sessions map + bbolt sessions.db), authRateLimiter, handleLogin / handleLogout, optionalAuth / optionalAuthThird, postInstall, ensure, gzip wrapper, limitRequestBody, registerControlHandlers, newWebAPI (static file server) on the real http.ServeMux", "go.etcd.io/bbolt on a tmpfs file", "bcrypt (MinCost) password check"},
	Stub: []string{"HTTP listener (requests are parsed by net/http's request reader and handed to the handler the listeners serve, in-process)", "wall clock (synctest fake clock)", "static front-end files (in-memory fs.FS)", "DNS/DHCP/filtering/statistics/query-log modules are not assembled for this property"},
	Assumptions: []string{
		"'within a minute' is counted from the first failed login of the current run of failures (window end = first failure + 60 s), as the design document fixes it",
		"an attempt exactly on the end of the window or of the block, and a token used within one second (the resolution of the stored expiry) before created+TTL or exactly at last use+TTL, may go either way; after an edge attempt the address is not asserted until max(60 s, block) has passed without attempts",
		"between created+TTL and last-authenticated-use+TTL a token may or may not be valid (any sliding-expiry scheme); never after",
		"the failed-attempt table is process memory: what a restart does to a running block is not asserted (counted as probe restart_inside_block)",
		"a crash is the loss of the process with the page cache intact: the bbolt handle is dropped without Auth.Close (bbolt commits are synchronous, so this equals a clean close at file level)",
	},
	FaultKinds: []string{"clean_restart", "process_crash", "clock_jump_hours", "concurrent_request_and_logout"},
	ProbeNames: []string{"login_attempt", "request_with_cookie", "limit_reached", "blocked_login_rejected", "right_password_inside_block", "block_elapsed", "window_elapsed_count_restarts", "success_clears_count", "edge_instant_throttle", "edge_instant_expiry", "login_in_unasserted_state", "retry_after_present", "proxy_header_from_untrusted_client", "token_alive_past_created_plus_ttl", "use_on_a_later_day", "expired_token_refused", "logged_out_token_refused", "unknown_token_refused", "logout_done", "basic_credentials_request", "basic_credentials_inside_block", "restart_inside_block", "restart_with_live_sessions", "midnight_crossed", "sched_steps", "sched_switches"},
}
