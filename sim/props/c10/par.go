package c10

// The concurrent phase of C10 (op "par", mode D of the harness).
//
// In production every DHCPv4 packet is handled on a goroutine of its own
// (server4.Server.Serve: `go s.Handler(conn, peer, m)`), the admin API
// handlers run on the goroutines of the HTTP server, and the DNS server reads
// the lease table (HostByIP / IPByHost / MACByIP / Leases) for every request.
// A par op runs 2-4 such tasks under the seeded cooperative scheduler: the
// operations of one task run one after the other (one client waits for the
// answer before its next message, one administrator clicks one button at a
// time), the tasks overlap and are interleaved at the lock boundaries of the
// real code.
//
// Oracle.  C10 has no allocator model (which free address a client is given
// is left open by the statement), so the serial orders are not computed by a
// hand-written model but by running the very same operations ONE AT A TIME
// against exact copies of the server (replicas: same lease slice, indexes,
// pool bitset and leases.json as before the phase), in every order that keeps
// each task's own order.  The phase is accepted iff one of those serial
// executions gave every operation the answer it got in the overlapped run AND
// ended in the same state (lease table, the index entries that answer DNS, the
// pool bitset, leases.json); that serial execution is then judged operation by
// operation by the sequential oracle of this package (invariants I1..I7, offer
// liveness, reservations, what clients hold), exactly as if the operations had
// been generated in that order - so a listed finding reached inside a phase
// keeps its own class - and the case continues from it.  Finally the
// invariants are checked on the live server once more.

import (
	"encoding/json"
	"fmt"
	"net"
	"net/http"
	"net/netip"
	"os"
	"path/filepath"
	"runtime/debug"
	"sort"
	"strings"
	"sync/atomic"
	"time"

	"github.com/AdguardTeam/AdGuardHome/internal/dhcpd"
	"github.com/AdguardTeam/AdGuardHome/verifsim/env"
	"github.com/AdguardTeam/AdGuardHome/verifsim/kernel"
	"github.com/AdguardTeam/AdGuardHome/verifsim/sched"
	"github.com/insomniacslk/dhcp/dhcpv4"
	"pgregory.net/rapid"
)

// ---- generator ---------------------------------------------------------------------

// maxParOps bounds the operations of one phase (and with it the number of
// serial orders: at most 60 for 2+1+1+1).
const maxParOps = 5

func genPar(t *rapid.T, sc *Scenario) Op {
	n := sc.Pool
	op := Op{K: "par", Seed: rapid.Uint64().Draw(t, "par_seed"), Pct: rapid.SampledFrom([]int{20, 50, 80}).Draw(t, "par_pct")}
	nTasks := rapid.IntRange(2, 4).Draw(t, "par_tasks")
	budget := maxParOps
	// The tasks aim at the same address, client and name.
	hotIP := poolAddr(rapid.IntRange(0, min(n, 3)-1).Draw(t, "par_hot_ip")).String()
	hotHost := rapid.SampledFrom([]string{"", "alpha", "beta", dashed(poolAddr(0)), dashed(poolAddr(1))}).Draw(t, "par_hot_host")
	pick := func(label, hot string, pct int, other func() string) string {
		if rapid.IntRange(0, 99).Draw(t, label+"_hot") < pct {
			return hot
		}
		return other()
	}
	var pktMacs []int
	used := map[int]bool{}
	freeMac := func() (int, bool) {
		if len(used) >= sc.Macs || len(pktMacs) >= 3 {
			return 0, false
		}
		m := rapid.IntRange(0, sc.Macs-1).Draw(t, "par_mac")
		for used[m] {
			m = (m + 1) % sc.Macs
		}
		return m, true
	}
	for j := 0; j < nTasks; j++ {
		room := budget - (nTasks - 1 - j)
		w := rapid.IntRange(0, 9).Draw(t, "par_task_kind")
		if j == 0 && w >= 7 {
			w = 4 // an administrator's task
		} else if j == 0 {
			w = 0
		}
		var task []Op
		m, okMac := 0, false
		if w < 4 {
			m, okMac = freeMac()
		}
		switch {
		case w < 4 && okMac:
			used[m] = true
			pktMacs = append(pktMacs, m)
			host := pick("par_p_host", hotHost, 50, func() string { return genHost(t, n, "par_p_host_v") })
			f := rapid.IntRange(0, 11).Draw(t, "par_p_flavour")
			if room < 2 && f < 4 {
				f += 4
			}
			ref := func(label string, refs ...string) string {
				return pick(label, hotIP, 20, func() string { return rapid.SampledFrom(refs).Draw(t, label+"_v") })
			}
			switch {
			case f < 4:
				task = append(task, Op{K: "discover", M: m, Host: host},
					Op{K: "request", M: m, Sid: "ok", Req: "off", Host: host, Prl: rapid.IntRange(0, 2).Draw(t, "par_p_prl") == 0})
			case f == 4:
				task = append(task, Op{K: "discover", M: m, Host: host})
			case f < 7:
				task = append(task, Op{K: "request", M: m, Sid: "ok", Req: ref("par_p_sel", "off", "off", "off", "cur"), Host: host})
			case f == 7:
				task = append(task, Op{K: "request", M: m, Ci: ref("par_p_renew", "ack", "ack", "cur"), Host: host})
			case f == 8:
				task = append(task, Op{K: "request", M: m, Req: ref("par_p_reboot", "ack", "ack", "cur"), Host: host})
			case f < 11:
				task = append(task, Op{K: "release", M: m, Ci: ref("par_p_release", "ack", "ack", "cur")})
			default:
				task = append(task, Op{K: "decline", M: m, Req: ref("par_p_decline", "off", "ack", "cur")})
			}
		case w < 8:
			am := rapid.IntRange(0, sc.Macs-1).Draw(t, "par_a_mac")
			if len(pktMacs) > 0 && rapid.IntRange(0, 9).Draw(t, "par_a_mac_hot") < 6 {
				am = rapid.SampledFrom(pktMacs).Draw(t, "par_a_mac_pkt")
			}
			ip := func() string {
				return pick("par_a_ip", hotIP, 55, func() string {
					if rapid.IntRange(0, 2).Draw(t, "par_a_ip_cur") == 0 {
						return "cur"
					}
					return genAddrLit(t, n, "par_a_ip_v")
				})
			}
			host := func() string {
				return pick("par_a_host", hotHost, 50, func() string { return genHost(t, n, "par_a_host_v") })
			}
			switch f := rapid.IntRange(0, 11).Draw(t, "par_a_flavour"); {
			case f < 5:
				a := Op{K: "sadd", M: am, IP: ip(), Host: host()}
				task = append(task, a)
				if room >= 2 && a.IP != "cur" && rapid.IntRange(0, 3).Draw(t, "par_a_then_rm") == 0 {
					task = append(task, Op{K: "srm", M: am, IP: a.IP, Host: strings.ToLower(a.Host)})
				}
			case f < 7:
				task = append(task, Op{K: "supd", M: am, IP: ip(), Host: pick("par_u_host", "=cur", 40, host)})
			case f < 11:
				r := Op{K: "srm", M: am, IP: "cur", Host: "=cur"}
				if rapid.IntRange(0, 5).Draw(t, "par_m_lit") == 0 {
					r.IP = hotIP
				}
				task = append(task, r)
			default:
				task = append(task, Op{K: "reset"})
			}
		default:
			for k, nk := 0, rapid.IntRange(1, min(room, 2)).Draw(t, "par_r_n"); k < nk; k++ {
				addr := pick("par_r_ip", hotIP, 60, func() string { return genAddrLit(t, n, "par_r_ip_v") })
				switch rapid.IntRange(0, 5).Draw(t, "par_r_kind") {
				case 0, 1:
					task = append(task, Op{K: "leases"})
				case 2:
					task = append(task, Op{K: "status"})
				case 3:
					task = append(task, Op{K: "hostbyip", IP: addr})
				case 4:
					name := pick("par_r_host", hotHost, 50, func() string {
						return strings.ToLower(rapid.SampledFrom([]string{"alpha", "beta", dashed(poolAddr(0)), dashed(poolAddr(1)), "gamma.lan"}).Draw(t, "par_r_host_v"))
					})
					if name == "" {
						name = dashed(netip.MustParseAddr(hotIP))
					}
					task = append(task, Op{K: "ipbyhost", Host: name})
				default:
					task = append(task, Op{K: "macbyip", IP: addr})
				}
			}
		}
		budget -= len(task)
		op.Tasks = append(op.Tasks, task)
	}
	return op
}

// ---- one operation, against any server ------------------------------------------------

// subOut is what one operation of a phase was answered.
type subOut struct {
	ans     string
	replies []reply
	code    int
	err     error
}

func subDesc(op Op) string {
	switch op.K {
	case "discover", "request", "decline", "release":
		return fmt.Sprintf("%s m=%d req=%s ci=%s sid=%s host=%q", op.K, op.M, op.Req, op.Ci, op.Sid, op.Host)
	case "sadd", "supd", "srm":
		return fmt.Sprintf("%s m=%d ip=%s host=%q", op.K, op.M, op.IP, op.Host)
	case "hostbyip", "macbyip":
		return fmt.Sprintf("%s %s", op.K, op.IP)
	case "ipbyhost":
		return fmt.Sprintf("%s %q", op.K, op.Host)
	}
	return op.K
}

// statusBody is the part of GET /control/dhcp/status that lists leases.
type statusBody struct {
	Leases []struct {
		MAC, IP, Hostname, Expires string
	} `json:"leases"`
	Static []struct {
		MAC, IP, Hostname string
	} `json:"static_leases"`
	Enabled bool `json:"enabled"`
}

// execSub performs one operation of a phase through the entry points the
// sequential operations use and returns its answer in a comparable form.  It
// updates the client's view in clients (offered, acknowledged address) and
// nothing else of the harness.
func execSub(srv dhcpServer, mux *env.Mux, clients []client, op Op, xid int, enabled bool, tbl []lease) (o subOut) {
	defer func() {
		if r := recover(); r != nil {
			o.err = kernel.Violationf("panic", "%s panicked: %v\n%s", subDesc(op), r, debug.Stack())
		}
	}()
	do := func(method, path string, body []byte) (resp []byte, ok bool) {
		code, resp, err := mux.Do(method, path, body)
		if err != nil {
			o.err = apiErr(err)
			return nil, false
		}
		o.code = code
		if code >= 500 {
			o.err = kernel.Violationf("api-status", "%s %s %s -> %d %s", method, path, body, code, strings.TrimSpace(string(resp)))
			return nil, false
		}
		return resp, true
	}
	switch op.K {
	case "discover", "request", "decline", "release":
		if !enabled {
			o.ans = "not delivered (DHCP disabled)"
			return o
		}
		o.replies, o.err = sendTo(srv, op, xid, clients[op.M], tbl)
		if o.err != nil {
			return o
		}
		for _, r := range o.replies {
			if !r.Yi.IsValid() || r.Yi.IsUnspecified() {
				continue
			}
			switch r.Type {
			case dhcpv4.MessageTypeOffer:
				clients[op.M].offered = r.Yi
			case dhcpv4.MessageTypeAck:
				clients[op.M].acked = r.Yi
			}
		}
		o.ans = fmt.Sprint(o.replies)
	case "sadd", "supd", "srm":
		_, _, _, body := staticReq(op, tbl)
		if resp, ok := do(http.MethodPost, staticPaths[op.K], body); ok {
			o.ans = strings.TrimSpace(fmt.Sprintf("%s -> %d %s", body, o.code, strings.TrimSpace(string(resp))))
		}
	case "reset":
		if resp, ok := do(http.MethodPost, "/control/dhcp/reset_leases", nil); ok {
			o.ans = strings.TrimSpace(fmt.Sprintf("%d %s", o.code, strings.TrimSpace(string(resp))))
		}
	case "status":
		resp, ok := do(http.MethodGet, "/control/dhcp/status", nil)
		if !ok {
			return o
		}
		var sb statusBody
		if err := json.Unmarshal(resp, &sb); err != nil || o.code != http.StatusOK {
			o.err = kernel.Violationf("api-status", "GET /control/dhcp/status -> %d %.300s (%v)", o.code, resp, err)
			return o
		}
		var ls []string
		for _, l := range sb.Leases {
			ls = append(ls, fmt.Sprintf("%s %s %q %s", l.IP, l.MAC, l.Hostname, l.Expires))
		}
		for _, l := range sb.Static {
			ls = append(ls, fmt.Sprintf("%s %s %q static", l.IP, l.MAC, l.Hostname))
		}
		sort.Strings(ls)
		o.ans = fmt.Sprintf("enabled=%v %v", sb.Enabled, ls)
	case "leases":
		o.ans = fmt.Sprint(sortedStrings(fromSvc(srv.Leases())))
	case "hostbyip", "macbyip":
		a, err := netip.ParseAddr(op.IP)
		if err != nil {
			o.err = fmt.Errorf("harness: %s: bad address %q", op.K, op.IP)
			return o
		}
		if op.K == "hostbyip" {
			o.ans = fmt.Sprintf("%q", srv.HostByIP(a))
		} else {
			o.ans = fmt.Sprintf("%q", srv.MACByIP(a).String())
		}
	case "ipbyhost":
		o.ans = srv.IPByHost(op.Host).String()
	default:
		o.err = fmt.Errorf("harness: unknown operation %q in a concurrent phase", op.K)
	}
	return o
}

// ---- replicas -------------------------------------------------------------------------

// replica is an exact copy of a server in a directory of its own.
type replica struct {
	srv dhcpServer
	mux *env.Mux
	dir string
}

// replicate makes a replica of src: a server created from the configuration in
// force in a fresh directory holding a copy of src's leases.json, then given a
// deep copy of src's lease slice, indexes and pool bitset.
func (n *node) replicate(src dhcpServer) (*replica, error) {
	n.nReplicas++
	r := &replica{mux: env.NewMux(), dir: filepath.Join(n.root, fmt.Sprintf("replica%d", n.nReplicas))}
	if err := os.MkdirAll(r.dir, 0o755); err != nil {
		return nil, fmt.Errorf("harness: %w", err)
	}
	b, err := os.ReadFile(src.VerifDBPath())
	switch {
	case err == nil:
		if err = os.WriteFile(filepath.Join(r.dir, filepath.Base(src.VerifDBPath())), b, 0o644); err != nil {
			return nil, fmt.Errorf("harness: %w", err)
		}
	case !os.IsNotExist(err):
		return nil, fmt.Errorf("harness: %w", err)
	}
	conf := n.confIn(r.dir)
	conf.HTTPRegister = r.mux.Register
	s, err := dhcpd.Create(conf)
	if err != nil {
		return nil, fmt.Errorf("harness: creating a replica: %w", err)
	}
	r.srv = s
	if !r.srv.VerifV4ConfigureDNSIPAddrs([]net.IP{net.IP(selfIP.AsSlice())}) || !r.srv.VerifV4CopyStateFrom(src) {
		return nil, fmt.Errorf("harness: replica: v4 server not configured")
	}
	if filepath.Base(r.srv.VerifDBPath()) != filepath.Base(src.VerifDBPath()) {
		return nil, fmt.Errorf("harness: replica: unexpected database path")
	}
	return r, nil
}

func (r *replica) drop() {
	if r != nil {
		_ = os.RemoveAll(r.dir)
	}
}

// fullState is everything of a server that later answers depend on and that
// the statement speaks about, in comparable form.
type fullState struct {
	// table lists the leases (sorted), dns the entries of the address and
	// hostname indexes (what HostByIP / IPByHost / MACByIP answer from), bits
	// the pool offsets marked as leased, disk what leases.json lists.
	table, dns, disk []string
	bits             string
}

func stateOf(srv dhcpServer) (st fullState, err error) {
	raw := srv.VerifV4Table()
	if raw == nil {
		return st, fmt.Errorf("harness: no v4 table")
	}
	vl := func(l dhcpd.VerifLease) string {
		return lease{IP: l.IP, MAC: l.HWAddr.String(), Host: l.Hostname, Exp: l.Expiry, Static: l.IsStatic}.String()
	}
	st.table = sortedStrings(fromTable(raw))
	for ip, l := range raw.IPIndex {
		st.dns = append(st.dns, fmt.Sprintf("addr %s -> [%s]", ip, vl(l)))
	}
	for h, l := range raw.HostsIndex {
		st.dns = append(st.dns, fmt.Sprintf("name %q -> [%s]", h, vl(l)))
	}
	sort.Strings(st.dns)
	st.bits = fmt.Sprint(raw.LeasedOffsets)
	d, exists, derr := readDisk(srv.VerifDBPath())
	switch {
	case derr != nil:
		st.disk = []string{"unreadable: " + derr.Error()}
	case !exists:
		st.disk = []string{"no file"}
	default:
		st.disk = sortedStrings(d)
	}
	return st, nil
}

// ---- serial orders ------------------------------------------------------------------------

// serialOrders calls f with every interleaving of tasks of the given lengths
// that keeps each task's own order (an order is the sequence of task numbers),
// the likely ones (firsts) first, until f returns true.
func serialOrders(lens []int, firsts [][]int, f func(order []int) bool) {
	total := 0
	for _, l := range lens {
		total += l
	}
	var tried [][]int
	was := func(o []int) bool {
		for _, t := range tried {
			if equalInts(t, o) {
				return true
			}
		}
		return false
	}
	for _, first := range firsts {
		if len(first) != total || was(first) {
			continue
		}
		tried = append(tried, first)
		if f(first) {
			return
		}
	}
	left := append([]int(nil), lens...)
	cur := make([]int, 0, total)
	var rec func() bool
	rec = func() bool {
		if len(cur) == total {
			if was(cur) {
				return false
			}
			return f(cur)
		}
		for t := range left {
			if left[t] == 0 {
				continue
			}
			left[t]--
			cur = append(cur, t)
			stop := rec()
			cur = cur[:len(cur)-1]
			left[t]++
			if stop {
				return true
			}
		}
		return false
	}
	rec()
}

func equalInts(a, b []int) bool {
	if len(a) != len(b) {
		return false
	}
	for i := range a {
		if a[i] != b[i] {
			return false
		}
	}
	return true
}

// serialRun is one serial execution of the operations of a phase on a replica.
type serialRun struct {
	order []int
	outs  [][]subOut
	st    fullState
	// tables[k] is the lease table after the first k operations.
	tables [][]string
	// What agrees with the overlapped run.
	ansEq, tableEq, dnsEq, bitsEq, diskEq bool
	// firstDiff describes the first answer that differs.
	firstDiff string
}

func (r *serialRun) score() (s int) {
	for _, b := range []bool{r.ansEq && r.tableEq, r.tableEq, r.ansEq, r.dnsEq, r.bitsEq, r.diskEq} {
		s <<= 1
		if b {
			s |= 1
		}
	}
	return s
}

func (r *serialRun) full() bool { return r.ansEq && r.tableEq && r.dnsEq && r.bitsEq && r.diskEq }

// ---- the phase ------------------------------------------------------------------------------

// resolveSub replaces the references to the table of an operation ("cur",
// "=cur") by what the table before the phase says: the overlapped run and every
// serial execution send the same requests.
func resolveSub(op Op, before []lease) Op {
	cur, has := findMAC(before, macOf(op.M).String())
	lit := func(ref string) string {
		if ref != "cur" {
			return ref
		}
		if has {
			return cur.IP.String()
		}
		return ""
	}
	switch op.K {
	case "discover", "request", "decline", "release":
		op.Req, op.Ci = lit(op.Req), lit(op.Ci)
	case "sadd", "supd", "srm":
		op.IP = lit(op.IP)
		if op.Host == "=cur" {
			op.Host = ""
			if has {
				op.Host = cur.Host
			}
		}
	}
	return op
}

func (n *node) par(i int, op Op) error {
	n.opIdx, n.op, n.undelivered = i, op, false
	c := n.c
	if len(op.Tasks) < 2 || len(op.Tasks) > 4 {
		return fmt.Errorf("harness: op %d: a concurrent phase has 2-4 tasks", i)
	}
	before, _, err := n.tableOf(n.srv)
	if err != nil {
		return err
	}
	tasks := make([][]Op, len(op.Tasks))
	lens := make([]int, len(op.Tasks))
	names := make([]string, len(op.Tasks))
	total := 0
	pktMac := map[int]bool{}
	for j, task := range op.Tasks {
		if len(task) == 0 {
			return fmt.Errorf("harness: op %d: empty task", i)
		}
		var kinds []string
		taskMac := -1
		for _, sub := range task {
			if sub.K == "par" || sub.K == "advance" || sub.K == "restart" || sub.K == "setconf" || sub.Sid == "bad" || sub.Mac != "" {
				return fmt.Errorf("harness: op %d: %q cannot be part of a concurrent phase", i, sub.K)
			}
			if msgTypes[sub.K] != 0 {
				// One client's messages do not overlap each other.
				if (taskMac >= 0 && taskMac != sub.M) || (taskMac < 0 && pktMac[sub.M]) {
					return fmt.Errorf("harness: op %d: the messages of one client must be in one task, one client per task", i)
				}
				taskMac, pktMac[sub.M] = sub.M, true
			}
			tasks[j] = append(tasks[j], resolveSub(sub, before))
			kinds = append(kinds, sub.K)
		}
		lens[j], names[j] = len(task), strings.Join(kinds, "+")
		total += len(task)
	}
	if total > maxParOps {
		return fmt.Errorf("harness: op %d: more than %d operations in a concurrent phase", i, maxParOps)
	}
	clients0 := append([]client(nil), n.clients...)

	// The state before the phase, kept aside for the serial executions.
	var base *replica
	if !n.tainted {
		if base, err = n.replicate(n.srv); err != nil {
			return err
		}
		defer base.drop()
	}

	// -- the overlapped run.
	live := append([]client(nil), clients0...)
	outs := make([][]subOut, len(tasks))
	var seq, seq0 atomic.Int32
	// The order in which the operations completed and the order in which they
	// started: the two serial orders tried first.
	completion, started := make([]int, total), make([]int, total)
	fns := make([]func(), len(tasks))
	for j := range tasks {
		outs[j] = make([]subOut, len(tasks[j]))
		fns[j] = func() {
			for k, sub := range tasks[j] {
				started[seq0.Add(1)-1] = j
				outs[j][k] = execSub(n.srv, n.mux, live, sub, i, n.enabled, nil)
				completion[seq.Add(1)-1] = j
				if outs[j][k].err != nil {
					for k++; k < len(tasks[j]); k++ {
						started[seq0.Add(1)-1] = j
						completion[seq.Add(1)-1] = j
					}
					return
				}
				sched.Yield()
			}
		}
	}
	res := sched.Run(op.Seed, op.Pct, names, fns)
	c.Fault("overlapped_operations")
	c.Probes["sched_steps"] += res.Steps
	c.Probes["sched_switches"] += res.Switches
	if res.Escapes > 0 {
		c.Probe("sched_escapes")
	}
	if res.Switches > len(tasks) {
		c.Probe("par_interleaved")
	}
	if res.Deadlock != "" {
		return kernel.Violationf("deadlock: "+res.Deadlock, "op %d: %d overlapped tasks %v, schedule seed %d: every task waits for a lock:\n%s", i, len(tasks), names, op.Seed, res.Detail)
	}
	var log []string
	for j := range tasks {
		var parts []string
		for k, sub := range tasks[j] {
			o := outs[j][k]
			if o.err != nil {
				if v, ok := o.err.(*kernel.Violation); ok {
					v.Msg = fmt.Sprintf("op %d (par, schedule seed %d, task %d): %s", i, op.Seed, j, v.Msg)
				}
				return o.err
			}
			parts = append(parts, fmt.Sprintf("%s -> %s", subDesc(sub), o.ans))
		}
		log = append(log, fmt.Sprintf("task %d {%s}", j, strings.Join(parts, "; ")))
	}
	tbl, _, err := n.tableOf(n.srv)
	if err != nil {
		return err
	}
	c.Eventf("op %d t=%s par seed=%d pct=%d %s completion=%v steps=%d switches=%d | table %v", i, kernel.SimNow(), op.Seed, op.Pct, strings.Join(log, " || "), completion, res.Steps, res.Switches, sortedStrings(tbl))
	if n.tainted {
		n.clients = live
		c.Probe("ops_after_taint")
		return nil
	}
	got, err := stateOf(n.srv)
	if err != nil {
		return err
	}

	// -- the serial executions.
	var best *serialRun
	// inMem are the serial executions that explain everything but leases.json.
	var inMem []*serialRun
	var herr error
	nOrders := 0
	// First pass: an order is given up at the first answer that differs from
	// the overlapped run's; second pass (only when no order reproduces the
	// answers): every order to its end, to name the closest one.
	prune := true
	try := func(order []int) bool {
		nOrders++
		rep, err := n.replicate(base.srv)
		if err != nil {
			herr = err
			return true
		}
		defer rep.drop()
		run := &serialRun{order: append([]int(nil), order...), outs: make([][]subOut, len(tasks)), ansEq: true}
		cl := append([]client(nil), clients0...)
		pos := make([]int, len(tasks))
		t0, _, _ := n.tableOf(rep.srv)
		run.tables = append(run.tables, sortedStrings(t0))
		for _, j := range order {
			k := pos[j]
			pos[j]++
			o := execSub(rep.srv, rep.mux, cl, tasks[j][k], i, n.enabled, nil)
			if o.err != nil {
				if _, ok := o.err.(*kernel.Violation); !ok {
					herr = o.err
					return true
				}
				// The serial execution itself misbehaves (a crash, a 5xx): it
				// cannot explain the overlapped run, in which nothing of the
				// kind happened.
				o.ans = "error: " + o.err.Error()
			}
			run.outs[j] = append(run.outs[j], o)
			if o.ans != outs[j][k].ans && run.ansEq {
				if prune {
					return false
				}
				run.ansEq = false
				run.firstDiff = fmt.Sprintf("task %d: %s was answered %s, in this order it is answered %s", j, subDesc(tasks[j][k]), outs[j][k].ans, o.ans)
			}
			tk, _, _ := n.tableOf(rep.srv)
			run.tables = append(run.tables, sortedStrings(tk))
		}
		if run.st, err = stateOf(rep.srv); err != nil {
			herr = err
			return true
		}
		run.tableEq = equalStrings(run.st.table, got.table)
		run.dnsEq = equalStrings(run.st.dns, got.dns)
		run.bitsEq = run.st.bits == got.bits
		// leases.json must list the table (the statement), or at least be what
		// this serial order leaves (then a listed finding of a sequential
		// operation explains the difference, and is reported as such below).
		run.diskEq = equalStrings(run.st.disk, got.disk) || equalStrings(got.disk, got.table)
		if !run.diskEq {
			// A store takes its snapshot of the table after its operation has
			// unlocked, so in an overlapped run the snapshot may include later
			// operations of the order, never fewer: leases.json may be the
			// table at any moment of this order from the one the serial
			// execution's file corresponds to onwards.
			k0 := -1
			for k := range run.tables {
				if equalStrings(run.tables[k], run.st.disk) {
					k0 = k
				}
			}
			for k := k0; k0 >= 0 && k < len(run.tables); k++ {
				if equalStrings(run.tables[k], got.disk) {
					run.diskEq = true
				}
			}
		}
		if best == nil || run.score() > best.score() {
			best = run
		}
		if run.ansEq && run.tableEq && run.dnsEq && run.bitsEq {
			inMem = append(inMem, run)
		}
		return run.full()
	}
	serialOrders(lens, [][]int{completion, started}, try)
	if best == nil && herr == nil {
		prune = false
		serialOrders(lens, [][]int{completion, started}, try)
	}
	if herr != nil {
		return herr
	}
	c.Probes["par_serial_orders_tried"] += nOrders
	if nOrders > 1 {
		c.Probe("par_completion_order_not_serial_order")
	}
	if nOrders > 2 {
		c.Probe("par_neither_completion_nor_start_order")
	}
	c.Eventf("op %d par serial order %v of %d tried: answers=%v table=%v dns=%v bitset=%v disk=%v", i, best.order, nOrders, best.ansEq, best.tableEq, best.dnsEq, best.bitsEq, best.diskEq)

	mismatch := !best.full()
	diskOnly := mismatch && best.ansEq && best.tableEq && best.dnsEq && best.bitsEq
	if mismatch {
		v := n.parMismatch(i, op, tasks, outs, got, best, inMem, nOrders)
		if cls, note := requestWindowSignature(tasks, outs, n.srv.VerifV4Table(), base.srv.VerifV4Table(), best); cls != "" {
			v.Class, v.Msg = cls, v.Msg+"\n"+note
		}
		if err = n.report(v, fmt.Sprint(op.Seed)); err != nil {
			return err
		}
	} else {
		c.Probe("par_serializable")
	}

	// -- the serial execution that explains the run (or comes closest), judged
	// operation by operation by the sequential oracle.
	// (The replica kept aside is not needed any more: it is the one.)
	liveSrv, liveDir, liveMux := n.srv, n.dir, n.mux
	n.srv, n.dir, n.mux = base.srv, base.dir, base.mux
	n.clients = append([]client(nil), clients0...)
	pos := make([]int, len(tasks))
	for _, j := range best.order {
		k := pos[j]
		pos[j]++
		n.sub = fmt.Sprintf("/%d.%d", j, k)
		if err = n.step(i, tasks[j][k]); err != nil {
			break
		}
	}
	n.sub = ""
	n.srv, n.dir, n.mux = liveSrv, liveDir, liveMux
	n.opIdx, n.op, n.undelivered = i, op, false
	if err != nil {
		return err
	}
	if n.tainted {
		n.clients = live
		return nil
	}
	if mismatch {
		// A listed finding of the concurrent phase: carry on from what the live
		// server holds.
		n.clients = live
		if !diskOnly {
			n.tainted = true
			return nil
		}
		// leases.json differs from the table until the next store, as after a
		// listed stale-disk finding of a sequential operation.
		n.staleSig = strings.Join(got.disk, ";") + " != " + strings.Join(got.table, ";")
	} else if !equalStrings(got.disk, got.table) {
		// Explained by the serial order, in which a listed finding of a
		// sequential operation (reported above, by the sequential oracle on the
		// replica) leaves the file behind the table.
		n.staleSig = strings.Join(got.disk, ";") + " != " + strings.Join(got.table, ";")
	}

	// -- the invariants on the live server, as after any operation.
	return n.check(before, copyResv(n.resv), nil, time.Now())
}

// parMismatch builds the violation for an overlapped run that no serial order
// explains; best is the order that comes closest.
func (n *node) parMismatch(i int, op Op, tasks [][]Op, outs [][]subOut, got fullState, best *serialRun, inMem []*serialRun, nOrders int) *kernel.Violation {
	var b strings.Builder
	fmt.Fprintf(&b, "op %d: %d overlapped tasks (schedule seed %d, preemption %d%%):\n", i, len(tasks), op.Seed, op.Pct)
	for j := range tasks {
		for k, sub := range tasks[j] {
			fmt.Fprintf(&b, "  task %d: %s -> %s\n", j, subDesc(sub), outs[j][k].ans)
		}
	}
	fmt.Fprintf(&b, "table before: %v\nafterwards: table %v\n  index entries %v\n  pool offsets marked leased %s\n  leases.json %v\n", best.tables[0], got.table, got.dns, got.bits, got.disk)
	fmt.Fprintf(&b, "none of the %d serial orders of these operations gives these answers and this state; closest is order %v (task numbers)", nOrders, best.order)
	class := ""
	switch {
	case !best.ansEq && !best.tableEq:
		class = "par-not-serial"
		fmt.Fprintf(&b, ": %s; and it ends with table %v", best.firstDiff, best.st.table)
	case !best.ansEq:
		class = "par-answer-not-serial"
		fmt.Fprintf(&b, ", which ends in the same table, but %s", best.firstDiff)
	case !best.tableEq:
		class = "par-table-not-serial"
		fmt.Fprintf(&b, ", which gives the same answers but ends with table %v", best.st.table)
	case !best.dnsEq:
		class = "par-dns-index-not-serial"
		fmt.Fprintf(&b, ", which gives the same answers and table but index entries %v (HostByIP / IPByHost / MACByIP answer from them)", best.st.dns)
	case !best.bitsEq:
		class = "par-pool-bitset-not-serial"
		fmt.Fprintf(&b, ", which gives the same answers, table and indexes but marks pool offsets %s as leased (the allocator offers from the unmarked ones)", best.st.bits)
	default:
		class = "par-disk-not-serial"
		fmt.Fprintf(&b, ", which gives the same answers and in-memory state but leaves leases.json = %v", best.st.disk)
	overtaken:
		for _, run := range inMem {
			for k := 0; k+1 < len(run.tables); k++ {
				if equalStrings(run.tables[k], got.disk) {
					// The file holds the table of an earlier moment of the phase:
					// a store of an older snapshot was written after a newer one.
					class = "par-disk-stale-overtaken-store"
					fmt.Fprintf(&b, "; leases.json is the table as it was after %d of the %d operations (order %v): the store of an older snapshot of the table was written after that of a newer one", k, len(run.tables)-1, run.order)
					break overtaken
				}
			}
		}
	}
	return kernel.Violationf(class, "%s", b.String())
}

// requestWindowSignature recognises the listed consequences of DHCPREQUEST
// looking its lease up in one critical section and committing it in a second
// one (par-request-acked-*).  What is left of them varies (index entries for a
// lease outside the table, an answer no serial order gives, another client's
// lease renewed), so the pattern is taken from what they have in common: the
// run differs from every serial order in answers, table or index entries (not
// merely in the pool bitset or in leases.json), a REQUEST of this phase was
// acknowledged address a to client X (which had no reservation for a before
// the phase, or one that an overlapped operation can remove), the table afterwards holds no dynamic lease (X, a), and another
// task ran an operation that can take a lease entry
// away: one that removes leases (static add / update / remove, reset) or one
// that allocates (DISCOVER, DECLINE: on a full pool they re-use an expired or
// merely offered entry in place).  When the table then holds a as a dynamic
// lease of a client Y that such a DISCOVER was offered a, the entry was re-used
// between lookup and commit (-recycled-lease), else it was removed
// (-removed-lease).  Anything else stays with the general classes.
func requestWindowSignature(tasks [][]Op, outs [][]subOut, raw, rawBefore *dhcpd.VerifV4Table, best *serialRun) (class, note string) {
	if raw == nil || rawBefore == nil || (best.ansEq && best.tableEq && best.dnsEq) {
		return "", ""
	}
	type given struct {
		mac     string
		ip      netip.Addr
		task, k int
	}
	var acks, offers []given
	// taker: tasks with an operation that can take a dynamic lease entry away,
	// unreserver: tasks with one that can remove a reservation.
	taker, unreserver := map[int]bool{}, map[int]bool{}
	for j := range tasks {
		for k, sub := range tasks[j] {
			switch sub.K {
			case "supd", "srm", "reset":
				taker[j], unreserver[j] = true, true
			case "sadd", "discover", "decline":
				taker[j] = true
			}
			for _, r := range outs[j][k].replies {
				if !r.Yi.IsValid() || r.Yi.IsUnspecified() {
					continue
				}
				g := given{mac: macOf(sub.M).String(), ip: r.Yi, task: j, k: k}
				switch {
				case sub.K == "request" && r.Type == dhcpv4.MessageTypeAck:
					acks = append(acks, g)
				case sub.K == "discover" && r.Type == dhcpv4.MessageTypeOffer:
					offers = append(offers, g)
				}
			}
		}
	}
	for _, a := range acks {
		inTable := false
		var other *dhcpd.VerifLease
		for idx, l := range raw.Leases {
			if l.IP != a.ip || l.IsStatic {
				continue
			}
			if l.HWAddr.String() == a.mac {
				inTable = true
			} else {
				other = &raw.Leases[idx]
			}
		}
		otherTaker, otherUnreserver := false, false
		for j := range tasks {
			otherTaker = otherTaker || (j != a.task && taker[j])
			otherUnreserver = otherUnreserver || (j != a.task && unreserver[j])
		}
		for _, l := range rawBefore.Leases {
			// A client that came into the phase with a reservation for a which
			// no overlapped operation can remove: its REQUEST finds the static
			// lease and commits nothing.
			inTable = inTable || (!otherUnreserver && l.IsStatic && l.IP == a.ip && l.HWAddr.String() == a.mac)
		}
		if inTable || !otherTaker {
			continue
		}
		if other != nil {
			for _, o := range offers {
				if o.task != a.task && o.ip == a.ip && o.mac == other.HWAddr.String() {
					return "par-request-acked-recycled-lease", fmt.Sprintf("Listed pattern: %s was acknowledged %s, but the table holds that address for %s, which an overlapped DISCOVER was offered it, and no lease for %s: the lease entry was re-used for the other client between the request's lookup and its commit, and the commit renewed what is now the other client's lease.", a.mac, a.ip, o.mac, a.mac)
				}
			}
		}
		return "par-request-acked-removed-lease", fmt.Sprintf("Listed pattern: %s was acknowledged %s, the table afterwards holds no dynamic lease for that pair, and an overlapped operation takes lease entries away: the lease was removed (or re-used and then removed) between the request's lookup and its commit, the commit worked on an entry that is no longer the table's.", a.mac, a.ip)
	}
	return "", ""
}
