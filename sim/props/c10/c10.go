// Package c10 decides property C10 (DHCPv4 never leases one address to two
// clients; the lease table survives a restart) by deterministic simulation
// (engine E4 dhcpsim): the real dhcpd server (dhcpd.Create, the real v4 packet
// handler, the real static-lease HTTP handlers, the real leases.json store and
// load) under the fake clock of a synctest bubble, driven by seeded histories
// of DHCP messages from a small set of simulated clients (which also
// misbehave), static-lease operations, clock advances past lease expiry, pool
// exhaustion and restarts.  No allocator model: invariants I1..I7 of the
// DESIGN and one liveness clause are checked after every operation against
// the raw in-memory table (accessor hook), Leases(), an independent parse of
// leases.json, the captured replies, and a shadow restart (a second server
// created from the same directory).
package c10

import (
	"encoding/json"
	"fmt"
	"io"
	"net"
	"net/http"
	"net/netip"
	"os"
	"path/filepath"
	"sort"
	"strings"
	"testing"
	"time"

	"github.com/AdguardTeam/AdGuardHome/internal/dhcpd"
	"github.com/AdguardTeam/AdGuardHome/internal/dhcpsvc"
	"github.com/AdguardTeam/AdGuardHome/verifsim/env"
	"github.com/AdguardTeam/AdGuardHome/verifsim/kernel"
	"github.com/AdguardTeam/AdGuardHome/verifsim/sched"
	"github.com/AdguardTeam/golibs/log"
	"github.com/insomniacslk/dhcp/dhcpv4"
	"pgregory.net/rapid"
)

func init() {
	// dhcpd logs through the global golibs logger.
	log.SetOutput(io.Discard)
}

// ---- scenario ----------------------------------------------------------------

// Op is one generated operation.
type Op struct {
	// K is one of discover request decline release sadd supd srm advance restart
	// setconf par; inside a par also reset leases status hostbyip ipbyhost
	// macbyip (see par.go).
	K string `json:"k"`
	// M is the index of the client (MAC) the message comes from or the static
	// lease is for.
	M int `json:"m"`
	// Sid is the server-identifier option: "" absent, "ok" this server, "bad"
	// another server.
	Sid string `json:"sid,omitempty"`
	// Req is the requested-IP-address option and Ci the ciaddr field: ""
	// absent, "off" the address last offered to this client, "ack" the address
	// last acknowledged to it, "cur" the address the server's table holds for
	// it, or a literal address.
	Req string `json:"req,omitempty"`
	Ci  string `json:"ci,omitempty"`
	// Host is the hostname option (messages) or the hostname field (static
	// ops; "=cur" means the hostname the table holds for the client).
	Host string `json:"h,omitempty"`
	// Prl makes the message carry a parameter request list with the hostname.
	Prl bool `json:"prl,omitempty"`
	Bc  bool `json:"bc,omitempty"`
	// Mac overrides the MAC string of a static op (malformed MACs).
	Mac string `json:"mac,omitempty"`
	// IP is the address of a static op: literal or "cur".
	IP string `json:"ip,omitempty"`
	// Ms is the length of a clock advance.
	Ms int64 `json:"ms,omitempty"`
	// A setconf op (POST /control/dhcp/set_config): En is the "enabled" field
	// ("" absent, "on", "off"); V4 says what the "v4" section carries: ""
	// absent, "same" the configuration in force, "new" the range Lo..Lo+N-1
	// (last octets) with lease time Ls seconds, or an invalid section "gw"
	// (range contains the gateway), "outside" (range end outside the subnet),
	// "inverted" (start after end), "nostart" (no range start).
	En string `json:"en,omitempty"`
	V4 string `json:"v4,omitempty"`
	Lo int    `json:"lo,omitempty"`
	N  int    `json:"n,omitempty"`
	Ls int    `json:"ls,omitempty"`
	// A par op (the concurrent phase): the operations of each task run in
	// their order, the tasks overlap, interleaved at lock boundaries by the
	// cooperative scheduler seeded with Seed (Pct = preemption probability).
	Seed  uint64 `json:"seed,omitempty"`
	Pct   int    `json:"pct,omitempty"`
	Tasks [][]Op `json:"tasks,omitempty"`
}

// Scenario is one case.
type Scenario struct {
	Pool     int   `json:"pool"`
	LeaseSec int   `json:"lease_s"`
	Macs     int   `json:"macs"`
	StartMs  int64 `json:"start_ms"`
	Ops      []Op  `json:"ops"`
}

const (
	subnetPfx = "192.168.10."
	poolBase  = 100
)

var (
	gatewayIP  = netip.MustParseAddr(subnetPfx + "1")
	selfIP     = netip.MustParseAddr(subnetPfx + "2")
	otherSrvIP = netip.MustParseAddr(subnetPfx + "3")
	subnetMask = netip.MustParseAddr("255.255.255.0")
	subnet     = netip.MustParsePrefix(subnetPfx + "0/24")
)

func poolAddr(i int) netip.Addr {
	return netip.MustParseAddr(fmt.Sprintf("%s%d", subnetPfx, poolBase+i))
}

func macOf(i int) net.HardwareAddr { return net.HardwareAddr{0x02, 0, 0, 0, 0, byte(i + 1)} }

// genName is the name the statement's "hostname/address answers" are compared
// on for addresses without a client-chosen name; written from the documented
// format (address with dashes), not taken from the implementation.
func dashed(ip netip.Addr) string { return strings.ReplaceAll(ip.String(), ".", "-") }

// addrAlphabet returns literal addresses worth trying for a pool of n.
func addrAlphabet(n int) (pool, other []string) {
	for i := 0; i < n; i++ {
		pool = append(pool, poolAddr(i).String())
	}
	other = []string{
		gatewayIP.String(), selfIP.String(),
		subnetPfx + "50", subnetPfx + "51",
		fmt.Sprintf("%s%d", subnetPfx, poolBase+n), // first address after the pool
		subnetPfx + "99", // last address before the pool
		"192.168.11.5",   // outside the subnet
		subnetPfx + "255", subnetPfx + "0",
	}
	return pool, other
}

var hostAlphabet = []string{"", "alpha", "beta", "Alpha", "al pha", "!!!", "gamma.lan", "-x-", strings.Repeat("a", 64)}

func genAddrLit(t *rapid.T, n int, label string) string {
	pool, other := addrAlphabet(n)
	if rapid.IntRange(0, 9).Draw(t, label+"_inpool") < 7 {
		// Low pool offsets are the contended ones.
		i := rapid.IntRange(0, n-1).Draw(t, label+"_p")
		if n > 3 && rapid.IntRange(0, 2).Draw(t, label+"_low") > 0 {
			i %= 3
		}
		return pool[i]
	}
	return rapid.SampledFrom(other).Draw(t, label+"_o")
}

func genRef(t *rapid.T, n int, label string, wOff, wAck, wCur, wLit, wNone int) string {
	k := rapid.IntRange(0, wOff+wAck+wCur+wLit+wNone-1).Draw(t, label)
	switch {
	case k < wOff:
		return "off"
	case k < wOff+wAck:
		return "ack"
	case k < wOff+wAck+wCur:
		return "cur"
	case k < wOff+wAck+wCur+wLit:
		return genAddrLit(t, n, label+"_lit")
	}
	return ""
}

func genHost(t *rapid.T, n int, label string) string {
	k := rapid.IntRange(0, len(hostAlphabet)+1).Draw(t, label)
	if k < len(hostAlphabet) {
		return hostAlphabet[k]
	}
	// The name the server itself would generate for a low pool address.
	return dashed(poolAddr((k - len(hostAlphabet)) % n))
}

// Gen draws a scenario.
func Gen(t *rapid.T, tier string) any {
	sc := &Scenario{}
	sc.Pool = rapid.SampledFrom(poolSizes).Draw(t, "pool")
	sc.LeaseSec = rapid.SampledFrom([]int{60, 120, 3600, 86400}).Draw(t, "lease_s")
	if rapid.IntRange(0, 3).Draw(t, "many_macs") == 0 {
		sc.Macs = rapid.IntRange(1, 25).Draw(t, "macs_any")
	} else {
		sc.Macs = rapid.IntRange(1, sc.Pool+3).Draw(t, "macs")
	}
	sc.StartMs = int64(rapid.SampledFrom([]int{0, 0, 250, 999}).Draw(t, "start_ms"))
	maxOps := 40
	if tier == "thorough" {
		maxOps = 120
	}
	nOps := rapid.IntRange(3, maxOps).Draw(t, "n_ops")
	for len(sc.Ops) < nOps {
		k := rapid.IntRange(0, kindMax).Draw(t, "kind")
		sc.Ops = append(sc.Ops, genOps(t, sc, k)...)
	}
	return sc
}

// Kinds of generated operations: [0, kindStatic) DHCP messages, [kindStatic,
// kindAdvance) static-lease operations, [kindAdvance, kindRestart) clock
// advances, [kindRestart, kindSetconf) restarts, [kindSetconf, kindPar)
// configuration changes, [kindPar, kindMax] concurrent phases.
const (
	kindStatic  = 66
	kindAdvance = 84
	kindRestart = 95
	kindSetconf = 100
	kindPar     = 105
	kindMax     = 113
)

var poolSizes = []int{2, 2, 3, 3, 3, 4, 5, 8, 20}

// genSetconf draws one set_config request of the given flavour.
func genSetconf(t *rapid.T, sc *Scenario, flavour string) Op {
	op := Op{K: "setconf"}
	newRange := func() {
		op.V4 = "new"
		op.Lo = rapid.SampledFrom([]int{poolBase, poolBase, poolBase, poolBase - 1, poolBase + 1, poolBase + 2}).Draw(t, "c_lo")
		op.N = rapid.SampledFrom(poolSizes).Draw(t, "c_n")
		op.Ls = rapid.SampledFrom([]int{sc.LeaseSec, sc.LeaseSec, 60, 120, 3600}).Draw(t, "c_ls")
	}
	switch flavour {
	case "off":
		op.En = "off"
		switch rapid.IntRange(0, 3).Draw(t, "c_off_v4") {
		case 0:
			op.V4 = ""
		case 1:
			newRange()
		default:
			op.V4 = "same"
		}
	case "on":
		op.En = rapid.SampledFrom([]string{"on", "on", "on", ""}).Draw(t, "c_on_en")
		if rapid.IntRange(0, 2).Draw(t, "c_on_new") == 0 {
			newRange()
		} else {
			op.V4 = "same"
		}
	default:
		op.En = rapid.SampledFrom([]string{"on", "off", ""}).Draw(t, "c_bad_en")
		op.V4 = rapid.SampledFrom([]string{"", "gw", "outside", "inverted", "nostart"}).Draw(t, "c_bad_v4")
		if op.V4 == "" {
			// Enabling without a v4 section.
			op.En = "on"
		}
	}
	return op
}

// genOps draws the operation(s) of kind k.
func genOps(t *rapid.T, sc *Scenario, k int) (ops []Op) {
	n := sc.Pool
	leaseMs := int64(sc.LeaseSec) * 1000
	m := rapid.IntRange(0, sc.Macs-1).Draw(t, "mac")
	op := Op{M: m}
	switch {
	case k < 16:
		op.K = "discover"
		op.Host = genHost(t, n, "d_host")
		op.Req = genRef(t, n, "d_req", 0, 1, 1, 2, 8)
		op.Bc = rapid.IntRange(0, 3).Draw(t, "d_bc") == 0
	case k < 30:
		// A well-behaved DISCOVER + REQUEST(selecting) pair.
		host := genHost(t, n, "p_host")
		ops = append(ops, Op{K: "discover", M: m, Host: host})
		op.K, op.Sid, op.Req, op.Host = "request", "ok", "off", host
		op.Prl = rapid.IntRange(0, 2).Draw(t, "p_prl") == 0
	case k < 40:
		op.K = "request" // selecting
		op.Sid = rapid.SampledFrom([]string{"ok", "ok", "ok", "bad"}).Draw(t, "s_sid")
		op.Req = genRef(t, n, "s_req", 10, 1, 2, 5, 1)
		if rapid.IntRange(0, 9).Draw(t, "s_ci") == 0 {
			op.Ci = genRef(t, n, "s_ci_ref", 1, 1, 1, 1, 0)
		}
		op.Host = genHost(t, n, "s_host")
		op.Prl = rapid.IntRange(0, 2).Draw(t, "s_prl") == 0
	case k < 46:
		op.K = "request" // init-reboot
		op.Req = genRef(t, n, "i_req", 1, 5, 2, 3, 0)
		op.Host = genHost(t, n, "i_host")
	case k < 54:
		op.K = "request" // renew / rebind
		op.Ci = genRef(t, n, "r_ci", 1, 6, 2, 2, 0)
		op.Host = genHost(t, n, "r_host")
		op.Prl = rapid.IntRange(0, 2).Draw(t, "r_prl") == 0
	case k < 57:
		op.K = "decline"
		if rapid.IntRange(0, 3).Draw(t, "x_via_ci") == 0 {
			op.Ci = genRef(t, n, "x_ci", 3, 3, 2, 2, 0)
		} else {
			op.Req = genRef(t, n, "x_req", 3, 3, 2, 2, 0)
		}
	case k < kindStatic:
		op.K = "release"
		if rapid.IntRange(0, 3).Draw(t, "l_via_req") == 0 {
			op.Req = genRef(t, n, "l_req", 1, 4, 2, 2, 0)
		} else {
			op.Ci = genRef(t, n, "l_ci", 1, 4, 2, 2, 0)
		}
	case k < 75:
		op.K = "sadd"
		op.IP = genAddrLit(t, n, "a_ip")
		if rapid.IntRange(0, 19).Draw(t, "a_ip_odd") == 0 {
			op.IP = rapid.SampledFrom([]string{"", "::ffff:" + poolAddr(0).String(), "::ffff:" + poolAddr(1).String(), "cur", "bogus"}).Draw(t, "a_ip_odd_v")
		}
		op.Host = genHost(t, n, "a_host")
		if rapid.IntRange(0, 19).Draw(t, "a_mac_odd") == 0 {
			op.Mac = rapid.SampledFrom([]string{"", "zz", "02:00:00:00:00", "02:00:00:00:00:01:02:03"}).Draw(t, "a_mac_odd_v")
		}
	case k < 79:
		op.K = "supd"
		op.IP = genAddrLit(t, n, "u_ip")
		if rapid.IntRange(0, 3).Draw(t, "u_ip_cur") == 0 {
			op.IP = "cur"
		}
		op.Host = genHost(t, n, "u_host")
		if rapid.IntRange(0, 3).Draw(t, "u_host_cur") == 0 {
			op.Host = "=cur"
		}
	case k < kindAdvance:
		op.K = "srm"
		op.IP, op.Host = "cur", "=cur"
		if rapid.IntRange(0, 4).Draw(t, "m_lit") == 0 {
			op.IP = genAddrLit(t, n, "m_ip")
		}
		if rapid.IntRange(0, 4).Draw(t, "m_hlit") == 0 {
			op.Host = genHost(t, n, "m_host")
		}
	case k < kindRestart:
		op = Op{K: "advance"}
		switch rapid.IntRange(0, 8).Draw(t, "adv_kind") {
		case 0:
			op.Ms = int64(rapid.IntRange(1, 5000).Draw(t, "adv_ms"))
		case 1:
			op.Ms = leaseMs / 2
		case 2:
			op.Ms = leaseMs - 1000
		case 3:
			op.Ms = leaseMs
		case 4:
			op.Ms = leaseMs + 1000
		case 5:
			op.Ms = leaseMs/2 + 1
		case 6:
			op.Ms = leaseMs - int64(rapid.IntRange(0, 999).Draw(t, "adv_sub"))
		default:
			op.Ms = leaseMs * int64(rapid.IntRange(2, 5).Draw(t, "adv_mult"))
		}
	case k < kindSetconf:
		op = Op{K: "restart"}
	case k >= kindPar:
		op = genPar(t, sc)
	default:
		switch f := rapid.IntRange(0, 9).Draw(t, "c_flavour"); {
		case f < 4:
			// A period with DHCP switched off: the administrator's operations
			// that make sense meanwhile (static leases, time passing, a
			// restart), then usually switched on again.
			ops = append(ops, genSetconf(t, sc, "off"))
			for i, ni := 0, rapid.IntRange(0, 3).Draw(t, "c_inner"); i < ni; i++ {
				ops = append(ops, genOps(t, sc, rapid.IntRange(kindStatic, kindSetconf-1).Draw(t, "c_inner_kind"))...)
			}
			if rapid.IntRange(0, 4).Draw(t, "c_back_on") == 0 {
				return ops
			}
			op = genSetconf(t, sc, "on")
		case f < 8:
			op = genSetconf(t, sc, "on")
		default:
			op = genSetconf(t, sc, "bad")
		}
	}
	return append(ops, op)
}

// ---- observed state ------------------------------------------------------------

// lease is one lease as the oracle sees it, whatever the source.
type lease struct {
	IP     netip.Addr
	MAC    string
	Host   string
	Exp    time.Time
	Static bool
}

func (l lease) active(now time.Time) bool      { return l.Static || l.Exp.After(now) }
func (l lease) maybeActive(now time.Time) bool { return l.Static || !l.Exp.Before(now) }
func (l lease) key() string                    { return l.IP.String() + " " + l.MAC }

func (l lease) expStr() string {
	switch {
	case l.Static:
		return "static"
	case l.Exp.IsZero():
		return "exp=unset"
	}
	return fmt.Sprintf("exp=%ds", l.Exp.Unix()-kernel.Epoch.Unix())
}

func (l lease) String() string { return fmt.Sprintf("%s %s %q %s", l.IP, l.MAC, l.Host, l.expStr()) }

func sortedStrings(ls []lease) []string {
	out := make([]string, len(ls))
	for i, l := range ls {
		out[i] = l.String()
	}
	sort.Strings(out)
	return out
}

func fromSvc(ls []*dhcpsvc.Lease) []lease {
	out := make([]lease, len(ls))
	for i, l := range ls {
		out[i] = lease{IP: l.IP, MAC: l.HWAddr.String(), Host: l.Hostname, Exp: l.Expiry, Static: l.IsStatic}
	}
	return out
}

func fromTable(t *dhcpd.VerifV4Table) []lease {
	out := make([]lease, len(t.Leases))
	for i, l := range t.Leases {
		out[i] = lease{IP: l.IP, MAC: l.HWAddr.String(), Host: l.Hostname, Exp: l.Expiry, Static: l.IsStatic}
	}
	return out
}

// The lease database, parsed independently of the package's own types.
type diskFile struct {
	Version *int        `json:"version"`
	Leases  []diskLease `json:"leases"`
}

type diskLease struct {
	Expires  string `json:"expires"`
	IP       string `json:"ip"`
	Hostname string `json:"hostname"`
	MAC      string `json:"mac"`
	Static   bool   `json:"static"`
}

// readDisk returns the leases listed in leases.json; a missing file lists none.
func readDisk(path string) (ls []lease, exists bool, err error) {
	b, err := os.ReadFile(path)
	if err != nil {
		if os.IsNotExist(err) {
			return nil, false, nil
		}
		return nil, false, fmt.Errorf("harness: reading %s: %w", filepath.Base(path), err)
	}
	var f diskFile
	if err = json.Unmarshal(b, &f); err != nil {
		return nil, true, kernel.Violationf("disk-unparsable", "leases.json is not valid JSON: %v: %.200s", err, b)
	}
	if f.Version == nil || *f.Version != 1 {
		return nil, true, kernel.Violationf("disk-unparsable", "leases.json has no version 1 header: %.200s", b)
	}
	for _, d := range f.Leases {
		ip, perr := netip.ParseAddr(d.IP)
		if perr != nil {
			return nil, true, kernel.Violationf("disk-unparsable", "leases.json: bad ip %q", d.IP)
		}
		mac, perr := net.ParseMAC(d.MAC)
		if perr != nil {
			return nil, true, kernel.Violationf("disk-unparsable", "leases.json: bad mac %q", d.MAC)
		}
		l := lease{IP: ip, MAC: mac.String(), Host: d.Hostname, Static: d.Static}
		if !d.Static {
			if l.Exp, perr = time.Parse(time.RFC3339, d.Expires); perr != nil {
				return nil, true, kernel.Violationf("disk-unparsable", "leases.json: bad expiry %q", d.Expires)
			}
		}
		ls = append(ls, l)
	}
	return ls, true, nil
}

// ---- the node --------------------------------------------------------------------

// dhcpServer is what the harness uses of the (unexported) *dhcpd.server.
type dhcpServer interface {
	Leases() []*dhcpsvc.Lease
	HostByIP(ip netip.Addr) string
	IPByHost(host string) netip.Addr
	MACByIP(ip netip.Addr) net.HardwareAddr
	WriteDiskConfig(c *dhcpd.ServerConfig)
	VerifV4ConfigureDNSIPAddrs(ips []net.IP) bool
	VerifV4HandlePacket(conn net.PacketConn, peer net.Addr, req *dhcpv4.DHCPv4) bool
	VerifV4Table() *dhcpd.VerifV4Table
	VerifDBPath() string
	VerifV4CopyStateFrom(src any) bool
}

// capConn is the fake DHCP socket: it captures what the server sends.
type capConn struct {
	sent [][]byte
}

func (c *capConn) ReadFrom([]byte) (int, net.Addr, error) { return 0, nil, net.ErrClosed }
func (c *capConn) WriteTo(p []byte, _ net.Addr) (int, error) {
	c.sent = append(c.sent, append([]byte(nil), p...))
	return len(p), nil
}
func (c *capConn) Close() error                     { return nil }
func (c *capConn) LocalAddr() net.Addr              { return &net.UDPAddr{IP: net.IP(selfIP.AsSlice()), Port: 67} }
func (c *capConn) SetDeadline(time.Time) error      { return nil }
func (c *capConn) SetReadDeadline(time.Time) error  { return nil }
func (c *capConn) SetWriteDeadline(time.Time) error { return nil }

type client struct {
	offered netip.Addr
	acked   netip.Addr
}

type holder struct {
	mac string
	exp time.Time
}

type reservation struct {
	IP   netip.Addr
	Host string
}

type node struct {
	dir     string
	sc      *Scenario
	c       *kernel.Ctx
	srv     dhcpServer
	mux     *env.Mux
	clients []client
	// resv is the reference model of reservations: MAC -> address, following
	// the API's own success answers.
	resv map[string]reservation
	// tainted is set once a listed, persistent corruption of the table was
	// seen: the rest of the case only looks for crashes.
	tainted bool
	seen    map[string]bool
	// staleSig identifies the disk/memory difference already reported.
	staleSig string
	// nTolerated counts the listed findings carried past in this case.
	nTolerated int
	// held is the clients' side of the protocol: address -> the client that
	// was acknowledged that address and until when it may use it.  It is
	// cleared when the client gives the address up (RELEASE, DECLINE), is
	// refused (NAK), or the administrator's operations / a restart removed the
	// lease from the table (those removals are judged by the other checks).
	held map[netip.Addr]holder
	// heldAfterMsg applies the current message exchange to held.
	heldAfterMsg func()
	opIdx        int
	op           Op
	// The configuration in force as the administrator set it (the oracle's
	// side): the pool is lo..lo+size-1 (last octets), leaseSec the lease time,
	// enabled whether DHCP is switched on (a switched-off server has no socket:
	// no message reaches it).
	lo, size, leaseSec int
	enabled            bool
	// snap is the configuration file's side: what the server itself reported
	// (WriteDiskConfig, the persisted fields only) when it last announced a
	// configuration change, as home's config.write does; a restart creates the
	// server from it.
	snap diskConf
	// nModified counts the ConfigModified callbacks.
	nModified int
	// undelivered is set while judging a message that reached nobody.
	undelivered bool
	// root is the case's directory (dir is swapped for a replica's while the
	// operations of a concurrent phase are judged in their serial order), sub
	// marks the events of those operations, nReplicas numbers the replicas.
	root      string
	sub       string
	nReplicas int
	// staleReload is set while judging a restart or set_config that reloaded
	// the table from a leases.json that differed from memory (reported when the
	// difference arose).
	staleReload bool
}

// diskConf is the part of the DHCP configuration that home writes to and reads
// from AdGuardHome.yaml.
type diskConf struct {
	Enabled                 bool
	Iface                   string
	GW, Mask, Start, End    netip.Addr
	LeaseDuration, ICMPTime uint32
	Options                 []string
}

// pAddr is the i-th address of the pool in force.
func (n *node) pAddr(i int) netip.Addr {
	return netip.MustParseAddr(fmt.Sprintf("%s%d", subnetPfx, n.lo+i))
}

func (n *node) inPool(a netip.Addr) bool {
	return a.Is4() && a.Compare(n.pAddr(0)) >= 0 && a.Compare(n.pAddr(n.size-1)) <= 0
}

// onConfigModified is the live server's ConfigModified callback.
func (n *node) onConfigModified() {
	n.nModified++
	if n.srv == nil {
		return
	}
	c := &dhcpd.ServerConfig{}
	n.srv.WriteDiskConfig(c)
	n.snap = diskConf{
		Enabled: c.Enabled, Iface: c.InterfaceName,
		GW: c.Conf4.GatewayIP, Mask: c.Conf4.SubnetMask, Start: c.Conf4.RangeStart, End: c.Conf4.RangeEnd,
		LeaseDuration: c.Conf4.LeaseDuration, ICMPTime: c.Conf4.ICMPTimeout,
		Options: append([]string(nil), c.Conf4.Options...),
	}
}

// conf is the configuration a start of the process creates the server from.
func (n *node) conf(register bool) *dhcpd.ServerConfig {
	conf := n.confIn(n.dir)
	if register {
		conf.HTTPRegister = n.mux.Register
		conf.ConfigModified = n.onConfigModified
	}
	return conf
}

// confIn is conf for a server living in dir, nothing registered.
func (n *node) confIn(dir string) *dhcpd.ServerConfig {
	return &dhcpd.ServerConfig{
		ConfigModified:  func() {},
		Enabled:         n.snap.Enabled,
		InterfaceName:   n.snap.Iface,
		LocalDomainName: "lan",
		Conf4: dhcpd.V4ServerConf{
			GatewayIP:     n.snap.GW,
			SubnetMask:    n.snap.Mask,
			RangeStart:    n.snap.Start,
			RangeEnd:      n.snap.End,
			LeaseDuration: n.snap.LeaseDuration,
			ICMPTimeout:   n.snap.ICMPTime,
			Options:       append([]string(nil), n.snap.Options...),
		},
		WorkDir: dir,
		DataDir: dir,
	}
}

func (n *node) open() error {
	n.mux = env.NewMux()
	s, err := dhcpd.Create(n.conf(true))
	if err != nil {
		return kernel.Violationf("create-failed", "dhcpd.Create on the data directory failed: %v", err)
	}
	n.srv = s
	if !n.srv.VerifV4ConfigureDNSIPAddrs([]net.IP{net.IP(selfIP.AsSlice())}) {
		return fmt.Errorf("harness: v4 server not configured")
	}
	return nil
}

// shadow creates a second server from the same directory: what a restart at
// this instant would come up with.  It never writes.
func (n *node) shadow() (dhcpServer, error) {
	s, err := dhcpd.Create(n.conf(false))
	if err != nil {
		return nil, kernel.Violationf("create-failed", "dhcpd.Create on the data directory failed: %v", err)
	}
	return s, nil
}

func (n *node) tableOf(s dhcpServer) ([]lease, *dhcpd.VerifV4Table, error) {
	t := s.VerifV4Table()
	if t == nil {
		return nil, nil, fmt.Errorf("harness: no v4 table")
	}
	return fromTable(t), t, nil
}

func findStatic(ls []lease, mac string) (lease, bool) {
	for _, l := range ls {
		if l.MAC == mac && l.Static {
			return l, true
		}
	}
	return lease{}, false
}

func findMAC(ls []lease, mac string) (lease, bool) {
	for _, l := range ls {
		if l.MAC == mac {
			return l, true
		}
	}
	return lease{}, false
}

// resolve turns an address reference of an op into an address.
func (n *node) resolve(ref string, m int, tbl []lease) net.IP {
	return resolveRef(ref, m, n.clients[m], tbl)
}

func resolveRef(ref string, m int, cl client, tbl []lease) net.IP {
	var a netip.Addr
	switch ref {
	case "":
		return nil
	case "off":
		a = cl.offered
	case "ack":
		a = cl.acked
	case "cur":
		if l, ok := findMAC(tbl, macOf(m).String()); ok {
			a = l.IP
		}
	default:
		a, _ = netip.ParseAddr(ref)
	}
	if !a.IsValid() || !a.Is4() {
		return nil
	}
	return net.IP(a.AsSlice())
}

type reply struct {
	Type dhcpv4.MessageType
	Yi   netip.Addr
	Host string
}

func (r reply) String() string {
	if r.Host != "" {
		return fmt.Sprintf("%s yiaddr=%s host=%q", r.Type, r.Yi, r.Host)
	}
	return fmt.Sprintf("%s yiaddr=%s", r.Type, r.Yi)
}

var msgTypes = map[string]dhcpv4.MessageType{
	"discover": dhcpv4.MessageTypeDiscover,
	"request":  dhcpv4.MessageTypeRequest,
	"decline":  dhcpv4.MessageTypeDecline,
	"release":  dhcpv4.MessageTypeRelease,
}

// send builds the message of op, passes it over the wire format into the real
// packet handler and returns the captured replies.
func (n *node) send(op Op, tbl []lease) ([]reply, error) {
	if op.Sid == "bad" {
		n.c.Fault("client_wrong_server_id")
	}
	return sendTo(n.srv, op, n.opIdx, n.clients[op.M], tbl)
}

// sendTo is send for any server and any view of the client.
func sendTo(srv dhcpServer, op Op, xid int, cl client, tbl []lease) ([]reply, error) {
	mods := []dhcpv4.Modifier{
		dhcpv4.WithTransactionID(dhcpv4.TransactionID{0, 0, byte(xid >> 8), byte(xid)}),
		dhcpv4.WithHwAddr(macOf(op.M)),
		dhcpv4.WithMessageType(msgTypes[op.K]),
		dhcpv4.WithBroadcast(op.Bc),
	}
	if ip := resolveRef(op.Req, op.M, cl, tbl); ip != nil {
		mods = append(mods, dhcpv4.WithOption(dhcpv4.OptRequestedIPAddress(ip)))
	}
	if ip := resolveRef(op.Ci, op.M, cl, tbl); ip != nil {
		mods = append(mods, dhcpv4.WithClientIP(ip))
	}
	switch op.Sid {
	case "ok":
		mods = append(mods, dhcpv4.WithOption(dhcpv4.OptServerIdentifier(net.IP(selfIP.AsSlice()))))
	case "bad":
		mods = append(mods, dhcpv4.WithOption(dhcpv4.OptServerIdentifier(net.IP(otherSrvIP.AsSlice()))))
	}
	if op.Host != "" {
		mods = append(mods, dhcpv4.WithOption(dhcpv4.OptHostName(op.Host)))
	}
	if op.Prl {
		mods = append(mods, dhcpv4.WithRequestedOptions(dhcpv4.OptionHostName, dhcpv4.OptionSubnetMask, dhcpv4.OptionRouter, dhcpv4.OptionDomainNameServer))
	}
	msg, err := dhcpv4.New(mods...)
	if err != nil {
		return nil, fmt.Errorf("harness: building message: %w", err)
	}
	wire, err := dhcpv4.FromBytes(msg.ToBytes())
	if err != nil {
		return nil, fmt.Errorf("harness: message does not survive the wire format: %w", err)
	}
	conn := &capConn{}
	peer := &net.UDPAddr{IP: net.IPv4zero, Port: dhcpv4.ClientPort}
	if !srv.VerifV4HandlePacket(conn, peer, wire) {
		return nil, fmt.Errorf("harness: v4 server not configured")
	}
	var out []reply
	for _, p := range conn.sent {
		r, perr := dhcpv4.FromBytes(p)
		if perr != nil {
			return nil, kernel.Violationf("reply-unparsable", "the server sent a packet that is not DHCPv4: %v", perr)
		}
		yi, _ := netip.AddrFromSlice(r.YourIPAddr.To4())
		out = append(out, reply{Type: r.MessageType(), Yi: yi, Host: r.HostName()})
	}
	return out, nil
}

func apiErr(err error) error {
	if hp, ok := err.(*env.HandlerPanic); ok {
		return kernel.Violationf("api-panic", "%v", hp)
	}
	return err
}

var staticPaths = map[string]string{
	"sadd": "/control/dhcp/add_static_lease",
	"supd": "/control/dhcp/update_static_lease",
	"srm":  "/control/dhcp/remove_static_lease",
}

// staticReq is the request of a static-lease operation: "cur" / "=cur" stand
// for the address / hostname the table tbl holds for the client.
func staticReq(op Op, tbl []lease) (mac, ip, host string, body []byte) {
	mac = macOf(op.M).String()
	if op.Mac != "" {
		mac = op.Mac
	}
	cur, hasCur := findMAC(tbl, macOf(op.M).String())
	ip = op.IP
	if ip == "cur" {
		ip = ""
		if hasCur {
			ip = cur.IP.String()
		}
	}
	host = op.Host
	if host == "=cur" {
		host = ""
		if hasCur {
			host = cur.Host
		}
	}
	body, _ = json.Marshal(map[string]string{"mac": mac, "ip": ip, "hostname": host})
	return mac, ip, host, body
}

// static runs one static-lease operation through the real HTTP handler and
// updates the reservation model from the handler's own answer.
func (n *node) static(op Op, tbl []lease) (string, error) {
	mac, ip, host, body := staticReq(op, tbl)
	code, resp, err := n.mux.Do(http.MethodPost, staticPaths[op.K], body)
	if err != nil {
		return "", apiErr(err)
	}
	desc := fmt.Sprintf("%s %s -> %d", op.K, body, code)
	if code != http.StatusOK {
		if code >= 500 {
			return desc, kernel.Violationf("api-status", "%s %s", desc, strings.TrimSpace(string(resp)))
		}
		n.c.Probe("static_rejected")
		return desc + " " + strings.TrimSpace(string(resp)), nil
	}
	hw, perr := net.ParseMAC(mac)
	addr, aerr := netip.ParseAddr(ip)
	if perr != nil || aerr != nil {
		return desc, kernel.Violationf("static-accepted-malformed", "%s: the API accepted a lease whose mac/ip do not parse", desc)
	}
	addr = addr.Unmap()
	switch op.K {
	case "sadd":
		n.resv[hw.String()] = reservation{IP: addr, Host: host}
		n.c.Probe("static_added")
		if !n.inPool(addr) {
			n.c.Probe("static_added_outside_pool")
		}
	case "supd":
		n.resv[hw.String()] = reservation{IP: addr, Host: host}
		n.c.Probe("static_updated")
	case "srm":
		if r, ok := n.resv[hw.String()]; ok && r.IP == addr {
			delete(n.resv, hw.String())
			n.c.Probe("static_removed")
		} else {
			// The handler removes any lease matching ip+mac+hostname, also a
			// dynamic one; the reservation model is not concerned.
			n.c.Probe("static_remove_hit_dynamic")
		}
	}
	return desc, nil
}

// setconf sends one POST /control/dhcp/set_config and reports whether the
// server took the new configuration (it announced a configuration change).
func (n *node) setconf(op Op) (desc string, accepted bool, err error) {
	body := map[string]any{}
	enabled := n.enabled
	switch op.En {
	case "on":
		body["enabled"], enabled = true, true
	case "off":
		body["enabled"], enabled = false, false
	}
	lo, size, leaseSec := n.lo, n.size, n.leaseSec
	v4 := map[string]any{"gateway_ip": gatewayIP.String(), "subnet_mask": subnetMask.String()}
	last := func(o int) string { return fmt.Sprintf("%s%d", subnetPfx, o) }
	valid := true
	switch op.V4 {
	case "":
		v4 = nil
	case "same":
	case "new":
		if op.Lo < 2 || op.N < 2 || op.Lo+op.N > 255 || op.Ls < 1 {
			return "", false, fmt.Errorf("harness: bad setconf knobs")
		}
		lo, size, leaseSec = op.Lo, op.N, op.Ls
	case "gw", "outside", "inverted", "nostart":
		valid = false
	default:
		return "", false, fmt.Errorf("harness: unknown v4 section %q", op.V4)
	}
	if v4 != nil {
		v4["range_start"], v4["range_end"], v4["lease_duration"] = last(lo), last(lo+size-1), leaseSec
		switch op.V4 {
		case "gw":
			v4["range_start"], v4["range_end"] = gatewayIP.String(), last(5)
		case "outside":
			v4["range_end"] = "192.168.11.5"
		case "inverted":
			v4["range_start"], v4["range_end"] = last(lo+size-1), last(lo)
		case "nostart":
			v4["range_start"] = ""
		}
		body["v4"] = v4
	}
	raw, _ := json.Marshal(body)
	mod0 := n.nModified
	code, resp, err := n.mux.Do(http.MethodPost, "/control/dhcp/set_config", raw)
	if err != nil {
		return "", false, apiErr(err)
	}
	accepted = n.nModified != mod0
	desc = fmt.Sprintf("setconf %s -> %d accepted=%v", raw, code, accepted)
	switch {
	case !accepted && code == http.StatusOK:
		return desc, false, kernel.Violationf("setconf-ok-without-change", "%s: answered 200 but announced no configuration change", desc)
	case !accepted:
		if code >= 500 {
			return desc, false, kernel.Violationf("api-status", "%s %s", desc, strings.TrimSpace(string(resp)))
		}
		n.c.Probe("setconf_rejected")
		return desc, false, nil
	case !valid:
		return desc, true, kernel.Violationf("setconf-accepted-invalid-range", "%s: the server took a configuration whose pool is not an address range inside the subnet and clear of the gateway", desc)
	case code != http.StatusOK && !enabled:
		return desc, true, kernel.Violationf("api-status", "%s %s", desc, strings.TrimSpace(string(resp)))
	case code != http.StatusOK:
		// Switched on: the handler goes on to Start, which probes the network
		// interface and opens sockets; that part is stubbed (the interface does
		// not exist), so its error is the stub's.
		n.c.Probe("setconf_start_stubbed")
	}
	n.lo, n.size, n.leaseSec, n.enabled = lo, size, leaseSec, enabled
	// What Start does between probing the interface and opening the sockets.
	if !n.srv.VerifV4ConfigureDNSIPAddrs([]net.IP{net.IP(selfIP.AsSlice())}) {
		return desc, true, kernel.Violationf("setconf-no-v4-server", "%s: no configured DHCPv4 server after an accepted configuration", desc)
	}
	if enabled {
		n.c.Probe("setconf_enabled")
	} else {
		n.c.Probe("setconf_disabled")
	}
	if lo != poolBase || size != n.sc.Pool {
		n.c.Probe("setconf_range_changed")
	}
	return desc, true, nil
}

// afterReload is run after an operation that created the lease table anew from
// leases.json (a restart, an accepted set_config): before/live are the table
// and the answers before it, diskBefore what leases.json listed then.
func (n *node) afterReload(before, diskBefore []lease, diskErr error, live answerer) error {
	c := n.c
	var exempt []lease
	for _, l := range before {
		if !l.Static && !n.inPool(l.IP) {
			// A dynamic lease outside the pool now in force: the statement
			// wants dynamic addresses inside the configured pool and leaves
			// open what becomes of such a lease.
			exempt = append(exempt, l)
			c.Probe("lease_outside_new_pool")
		}
	}
	// Direct form of I7 (the shadow check after the previous op is the same
	// comparison; this one does not depend on it).
	if diskErr == nil && equalStrings(sortedStrings(diskBefore), sortedStrings(before)) {
		if err := n.compareRestart(before, live, n.srv, exempt...); err != nil {
			return err
		}
	} else if diskErr == nil {
		// The disk differed from memory (already reported when it arose): the
		// reload takes the disk's version.
		c.Probe("restart_from_stale_disk")
		n.staleReload = true
	}
	// Whatever the reload dropped has been reported (or is a listed finding):
	// the reservations are now what came back.
	cur, _, _ := n.tableOf(n.srv)
	for _, m := range sortedKeys(n.resv) {
		if l, ok := findStatic(cur, m); !ok || l.IP != n.resv[m].IP {
			delete(n.resv, m)
			c.Probe("reservation_dropped_by_restart")
		}
	}
	for _, l := range cur {
		// A reservation that only the stale disk still knew.
		if _, ok := n.resv[l.MAC]; l.Static && !ok {
			n.resv[l.MAC] = reservation{IP: l.IP, Host: l.Host}
		}
	}
	return nil
}

// ---- the oracle ------------------------------------------------------------------

// report handles one violation: a listed finding is recorded (once per case and
// subject) and the case carries on; anything else ends the case.
func (n *node) report(v *kernel.Violation, subject string) error {
	v.Msg = fmt.Sprintf("after op %d (%s) at t=%s: %s", n.opIdx, n.op.K, kernel.SimNow(), v.Msg)
	base := strings.Split(v.Class, "-after-")[0]
	if n.seen[base+"|"+subject] {
		// Already recorded for this subject in this case (persistent state).
		n.nTolerated++
		return nil
	}
	if n.c.Tolerate(v) || replayTolerated[v.Class] {
		n.seen[base+"|"+subject] = true
		n.nTolerated++
		return nil
	}
	return v
}

// replayTolerated works around the driver not passing the list of known
// findings to a replay process: when replaying a recorded scenario, the listed
// classes other than the recorded one are carried past exactly as during
// exploration, so that the replay reaches the recorded violation.
var replayTolerated = func() map[string]bool {
	out := map[string]bool{}
	path := os.Getenv("VERIF_REPLAY")
	if path == "" || os.Getenv("VERIF_KNOWN") != "" {
		return out
	}
	var rf struct {
		Class string `json:"class"`
	}
	if b, err := os.ReadFile(path); err == nil {
		_ = json.Unmarshal(b, &rf)
	}
	for _, kf := range []string{"props/c10/known_findings.jsonl", "../known_findings.jsonl"} {
		b, err := os.ReadFile(kf)
		if err != nil {
			continue
		}
		for _, line := range strings.Split(string(b), "\n") {
			var k struct {
				Property string `json:"property"`
				Class    string `json:"class"`
			}
			if json.Unmarshal([]byte(strings.TrimSpace(line)), &k) == nil && k.Property == "C10" && k.Class != "" && k.Class != rf.Class {
				out[k.Class] = true
			}
		}
	}
	return out
}()

func (n *node) afterOp(base string) string { return base + "-after-" + n.op.K }

// check runs invariants I1..I7 after one operation.  before is the table
// before the operation, replies what the server sent.
func (n *node) check(before []lease, resvBefore map[string]reservation, replies []reply, now time.Time) error {
	tbl, raw, err := n.tableOf(n.srv)
	if err != nil {
		return err
	}
	op := n.op
	mac := macOf(op.M).String()
	isMsg := msgTypes[op.K] != 0

	// -- replies: I3, I4 on every address the server hands out.
	tol0 := n.nTolerated
	for _, r := range replies {
		switch r.Type {
		case dhcpv4.MessageTypeOffer:
			n.c.Probe("offer")
		case dhcpv4.MessageTypeAck:
			n.c.Probe("ack")
		case dhcpv4.MessageTypeNak:
			n.c.Probe("nak")
		}
		if (r.Type != dhcpv4.MessageTypeOffer && r.Type != dhcpv4.MessageTypeAck) || !r.Yi.IsValid() || r.Yi.IsUnspecified() {
			continue
		}
		// One-second resolution (the lease time on the wire and the expiry in
		// leases.json are whole seconds): the last second of a lease is not
		// judged.
		if h, ok := n.held[r.Yi]; ok && h.mac != mac && h.exp.Add(-time.Second).After(now) {
			if err = n.report(kernel.Violationf("address-given-while-held", "the server answered %s to %s although %s was acknowledged that address until t=%s, has not released it and no administrator operation revoked it; table before %v", r, mac, h.mac, h.exp.Sub(kernel.Epoch), sortedStrings(before)), r.Yi.String()); err != nil {
				return err
			}
		}
		if rv, ok := n.resv[mac]; ok {
			n.c.Probe("reply_to_reserved_client")
			if r.Yi != rv.IP {
				cls := "reserved-client-other-address"
				for _, l := range before {
					if l.MAC == mac && !l.Static && l.IP == r.Yi {
						// The table still held a dynamic entry of this client
						// next to its reservation, and that one was answered.
						cls = "reserved-client-other-address-stale-dynamic-entry"
					}
				}
				if err = n.report(kernel.Violationf(cls, "client %s has a reservation for %s but the server answered %s; table before %v", mac, rv.IP, r, sortedStrings(before)), mac); err != nil {
					return err
				}
				n.tainted = true
				return nil
			}
			continue
		}
		switch {
		case !n.inPool(r.Yi):
			err = n.report(kernel.Violationf("dynamic-outside-pool", "client %s (no reservation) was given %s, outside the pool %s-%s", mac, r.Yi, n.pAddr(0), n.pAddr(n.size-1)), mac)
		case r.Yi == gatewayIP:
			err = n.report(kernel.Violationf("dynamic-on-gateway", "client %s was given the gateway address %s", mac, r.Yi), mac)
		default:
			for _, om := range sortedKeys(n.resv) {
				if n.resv[om].IP == r.Yi {
					err = n.report(kernel.Violationf("dynamic-on-reserved", "client %s was given %s, which is reserved for %s (%s)", mac, r.Yi, om, r), mac)
					break
				}
			}
		}
		if err != nil {
			return err
		}
		if n.nTolerated != tol0 {
			// A listed finding about a handed-out address: the table is
			// corrupt from here on.
			n.tainted = true
			return nil
		}
	}

	// -- the same lease listed twice in memory (then also on disk).
	seenKey := map[string]int{}
	for _, l := range tbl {
		seenKey[l.key()]++
	}
	for _, k := range sortedKeys(seenKey) {
		if seenKey[k] > 1 {
			n.c.Probe("table_dup_seen")
			d, _, _ := readDisk(n.srv.VerifDBPath())
			if err = n.report(kernel.Violationf(n.afterOp("lease-listed-twice"), "the in-memory table lists lease %s %d times (the next store writes it to leases.json as often, Leases() already does); table: %v; leases.json right now: %v", k, seenKey[k], sortedStrings(tbl), sortedStrings(d)), k); err != nil {
				return err
			}
			n.tainted = true
			return nil
		}
	}

	// -- I1, I2 over unexpired / static leases; I3 over dynamic entries.  A
	// table that breaks one of them stays broken, so a listed finding of this
	// kind ends the checked part of the case.
	byIP, byMAC := map[netip.Addr]lease{}, map[string]lease{}
	var tv *kernel.Violation
	tsubj := ""
	for _, l := range tbl {
		if !l.active(now) || tv != nil {
			continue
		}
		if o, ok := byIP[l.IP]; ok && o.MAC != l.MAC {
			tv, tsubj = kernel.Violationf(n.afterOp("address-two-clients"), "address %s is held by two clients at once: [%s] and [%s]; table %v", l.IP, o, l, sortedStrings(tbl)), l.IP.String()
			continue
		}
		byIP[l.IP] = l
	}
	// I2 (DESIGN: "no MAC has two") is about every entry of the table, also
	// the expired and the merely offered ones: the server keeps one per client.
	for _, l := range tbl {
		if tv != nil {
			break
		}
		if o, ok := byMAC[l.MAC]; ok && o.IP != l.IP {
			tv, tsubj = kernel.Violationf(n.afterOp("client-two-leases"), "client %s has two leases in the table: [%s] and [%s]; table %v", l.MAC, o, l, sortedStrings(tbl)), l.MAC
			continue
		}
		byMAC[l.MAC] = l
	}
	resvIPs := map[netip.Addr]string{}
	for _, m := range sortedKeys(n.resv) {
		resvIPs[n.resv[m].IP] = m
	}
	for _, l := range tbl {
		if l.Static || tv != nil {
			continue
		}
		switch {
		case !n.inPool(l.IP):
			tv, tsubj = kernel.Violationf(n.afterOp("dynamic-outside-pool"), "dynamic lease [%s] lies outside the pool", l), l.key()
		case l.IP == gatewayIP:
			tv, tsubj = kernel.Violationf(n.afterOp("dynamic-on-gateway"), "dynamic lease [%s] is on the gateway address", l), l.key()
		case resvIPs[l.IP] != "":
			tv, tsubj = kernel.Violationf(n.afterOp("dynamic-on-reserved"), "dynamic lease [%s] coincides with the reservation of %s; table %v", l, resvIPs[l.IP], sortedStrings(tbl)), l.key()
		}
	}
	if tv != nil {
		n.c.Probe("table_invariant_broken_seen")
		if err = n.report(tv, tsubj); err != nil {
			return err
		}
		n.tainted = true
		return nil
	}
	// Reservations in the table = reservations the API confirmed.
	gotResv := map[string]reservation{}
	for _, l := range tbl {
		if l.Static {
			gotResv[l.MAC] = reservation{IP: l.IP}
		}
	}
	for _, m := range sortedKeys(n.resv) {
		if g, ok := gotResv[m]; !ok || g.IP != n.resv[m].IP {
			if err = n.report(kernel.Violationf(n.afterOp("reservation-lost"), "the API confirmed a reservation %s -> %s which the table no longer holds (table: %v)", m, n.resv[m].IP, sortedStrings(tbl)), m); err != nil {
				return err
			}
			// Listed finding: the reservation is really gone, carry on
			// without it.
			delete(n.resv, m)
		}
	}
	for _, m := range sortedKeys(gotResv) {
		if _, ok := n.resv[m]; !ok {
			if err = n.report(kernel.Violationf(n.afterOp("reservation-unexpected"), "the table holds a static lease for %s at %s which no successful API call created or which was removed", m, gotResv[m].IP), m); err != nil {
				return err
			}
			n.resv[m] = gotResv[m]
		}
	}

	// -- Leases() shows exactly the static and unexpired leases of the table.
	var wantAPI []lease
	for _, l := range tbl {
		if l.active(now) {
			wantAPI = append(wantAPI, l)
		}
	}
	if got, want := sortedStrings(fromSvc(n.srv.Leases())), sortedStrings(wantAPI); !equalStrings(got, want) {
		return n.report(kernel.Violationf("leases-api-mismatch", "Leases() = %v, static/unexpired entries of the table = %v", got, want), "")
	}

	// -- an acknowledged address is backed by an unexpired lease of that client.
	if op.K == "request" {
		for _, r := range replies {
			if r.Type != dhcpv4.MessageTypeAck {
				continue
			}
			ok := false
			for _, l := range tbl {
				if l.MAC == mac && l.IP == r.Yi && l.active(now) {
					ok = true
				}
			}
			if !ok {
				return n.report(kernel.Violationf("ack-without-lease", "the server acknowledged %s to %s but the table holds no unexpired lease for that pair (table: %v)", r.Yi, mac, sortedStrings(tbl)), mac)
			}
			if l := byMAC[mac]; !l.Static {
				n.c.Probe("dynamic_lease_acked")
			} else {
				n.c.Probe("static_lease_acked")
			}
		}
	}

	// -- I5: offer liveness.
	if op.K == "discover" && !n.undelivered {
		_, known := findMAC(before, mac)
		_, reserved := resvBefore[mac]
		if !known && !reserved {
			taken := map[netip.Addr]bool{}
			for _, l := range before {
				if l.maybeActive(now) {
					taken[l.IP] = true
				}
			}
			for _, m := range sortedKeys(resvBefore) {
				taken[resvBefore[m].IP] = true
			}
			var free []string
			for i := 0; i < n.size; i++ {
				if a := n.pAddr(i); !taken[a] {
					free = append(free, a.String())
				}
			}
			offered := len(replies) == 1 && replies[0].Type == dhcpv4.MessageTypeOffer && replies[0].Yi.IsValid() && !replies[0].Yi.IsUnspecified()
			switch {
			case len(free) > 0 && !offered:
				n.c.Probe("discover_new_client_free_address")
				cls := "no-offer-with-free-address"
				leaked := 0
				for _, off := range raw.LeasedOffsets {
					if a := n.pAddr(int(off)); !taken[a] {
						held := false
						for _, l := range tbl {
							held = held || l.IP == a
						}
						if !held {
							leaked++
						}
					}
				}
				if leaked == len(free) {
					// Every free address is marked as leased in the pool
					// bitset although no table entry holds it.
					cls = "no-offer-with-free-address-bitset-leak"
				}
				if err = n.report(kernel.Violationf(cls, "DISCOVER from new client %s got %v although pool addresses %v are neither leased nor reserved (table before: %v; bitset offsets set: %v)", mac, replies, free, sortedStrings(before), raw.LeasedOffsets), mac); err != nil {
					return err
				}
			case len(free) > 0:
				n.c.Probe("discover_new_client_free_address")
			default:
				n.c.Fault("pool_exhausted")
			}
			if offered {
				held := map[netip.Addr]bool{}
				for _, l := range before {
					held[l.IP] = true
				}
				full := true
				for i := 0; i < n.size; i++ {
					full = full && held[n.pAddr(i)]
				}
				if full {
					// Every pool address had an entry: the offer re-uses an
					// expired or merely offered one.
					n.c.Probe("offer_recycled_entry")
				}
			}
		}
	}
	if isMsg && !n.undelivered {
		for _, l := range before {
			if !l.Static && !l.Exp.IsZero() && !l.active(now) {
				n.c.Probe("expired_lease_in_table")
				break
			}
		}
	}

	// -- I6: leases.json lists exactly the in-memory leases, each once.
	disk, exists, err := readDisk(n.srv.VerifDBPath())
	if err != nil {
		if v, ok := err.(*kernel.Violation); ok {
			return n.report(v, "")
		}
		return err
	}
	diskOK := true
	if !exists && len(tbl) > 0 {
		diskOK = false
		if err = n.report(kernel.Violationf(n.afterOp("disk-missing"), "no leases.json although the table holds %v", sortedStrings(tbl)), ""); err != nil {
			return err
		}
	} else if got, want := sortedStrings(disk), sortedStrings(tbl); !equalStrings(got, want) {
		diskOK = false
		n.c.Probe("disk_differs_seen")
		// A difference that an earlier operation left behind and that this
		// one (which stored nothing and changed nothing) merely did not
		// repair is the earlier finding, not a new one.
		sig := strings.Join(got, ";") + " != " + strings.Join(want, ";")
		if sig != n.staleSig {
			cls := n.afterOp("disk-stale")
			if op.K == "setconf" {
				cls += n.reloadDiffSuffix(disk, tbl)
			}
			if err = n.report(kernel.Violationf(cls, "leases.json lists %v but the in-memory table is %v", got, want), sig); err != nil {
				return err
			}
			n.staleSig = sig
		}
	} else {
		n.staleSig = ""
	}

	// -- I7: a restart at this instant restores the same table and answers.
	if diskOK {
		sh, err := n.shadow()
		if err != nil {
			return err
		}
		if err = n.compareRestart(tbl, n.srv, sh); err != nil {
			return err
		}
		n.c.Probe("shadow_restart_checked")
	}
	return nil
}

// answerer is the side of a server that compareRestart reads on the "before"
// side: the live server, or its answers recorded before an operation that
// reloads the table in place.
type answerer interface {
	HostByIP(ip netip.Addr) string
	IPByHost(host string) netip.Addr
	VerifV4Table() *dhcpd.VerifV4Table
}

// recorded holds the answers a server gave to DNS at one moment, for every
// address of the subnet (and the one outside it) and every name in use.
type recorded struct {
	byIP   map[netip.Addr]string
	byHost map[string]netip.Addr
	raw    *dhcpd.VerifV4Table
}

func (r *recorded) HostByIP(ip netip.Addr) string     { return r.byIP[ip] }
func (r *recorded) IPByHost(host string) netip.Addr   { return r.byHost[host] }
func (r *recorded) VerifV4Table() *dhcpd.VerifV4Table { return r.raw }

// record asks the live server for all the answers compareRestart may want.
func (n *node) record(tbl []lease) *recorded {
	r := &recorded{byIP: map[netip.Addr]string{}, byHost: map[string]netip.Addr{}, raw: n.srv.VerifV4Table()}
	ask := func(h string) {
		if _, ok := r.byHost[h]; !ok && h != "" {
			r.byHost[h] = n.srv.IPByHost(h)
		}
	}
	for i := 0; i < 256; i++ {
		a := netip.MustParseAddr(fmt.Sprintf("%s%d", subnetPfx, i))
		r.byIP[a] = n.srv.HostByIP(a)
		ask(dashed(a))
	}
	_, other := addrAlphabet(n.sc.Pool)
	for _, o := range other {
		a := netip.MustParseAddr(o)
		r.byIP[a] = n.srv.HostByIP(a)
		ask(dashed(a))
	}
	for _, h := range hostAlphabet {
		ask(h)
		ask(strings.ToLower(h))
		ask(strings.ReplaceAll(strings.ToLower(h), " ", "-"))
	}
	for _, l := range tbl {
		r.byIP[l.IP] = n.srv.HostByIP(l.IP)
		ask(l.Host)
	}
	return r
}

// reloadDiffSuffix explains a difference between leases.json and the table
// right after a configuration change reloaded the table: "-generated-name" when
// the only difference is dynamic entries without a hostname on disk that carry
// the name made from their address in memory, "-generated-name-clash" or
// "-duplicate-hostname" when (besides) leases are missing in memory for the
// reasons compareRestart names so, "-lease-outside-new-pool" when
// (besides) only dynamic leases outside the pool now in force are missing in
// memory, "" when the difference is anything else.
func (n *node) reloadDiffSuffix(disk, tbl []lease) string {
	cnt := map[string]int{}
	for _, l := range tbl {
		cnt[l.String()]++
	}
	var diskOnly []lease
	for _, l := range disk {
		if cnt[l.String()] > 0 {
			cnt[l.String()]--
		} else {
			diskOnly = append(diskOnly, l)
		}
	}
	outside, clash, dup := false, false, false
	for _, d := range diskOnly {
		renamed := d
		renamed.Host = dashed(d.IP)
		if !d.Static && d.Host == "" && cnt[renamed.String()] > 0 {
			cnt[renamed.String()]--
			continue
		}
		if !d.Static && !n.inPool(d.IP) {
			outside = true
			continue
		}
		// The explanations compareRestart gives for a lease lost on load.
		sameName, nameClash := 0, false
		for _, o := range disk {
			if o.Host == d.Host && d.Host != "" {
				sameName++
			}
			if (o.Host == "" && !o.Static && d.Host != "" && dashed(o.IP) == d.Host) || (d.Host == "" && !d.Static && o.Host == dashed(d.IP)) {
				nameClash = true
			}
		}
		switch {
		case nameClash:
			clash = true
		case sameName > 1:
			dup = true
		default:
			return ""
		}
	}
	for _, k := range sortedKeys(cnt) {
		if cnt[k] > 0 {
			// In memory but not on disk.
			return ""
		}
	}
	switch {
	case outside:
		return "-lease-outside-new-pool"
	case clash:
		return "-generated-name-clash"
	case dup:
		return "-duplicate-hostname"
	}
	return "-generated-name"
}

// compareRestart compares the table and the DNS-facing answers of the live
// server (tbl, live: before) with those of a server created from the same
// directory, or of the same server after it reloaded the table (re: after).
// Leases in exempt are not compared (the statement leaves their fate open).
func (n *node) compareRestart(tbl []lease, live answerer, re dhcpServer, exempt ...lease) error {
	after, _, err := n.tableOf(re)
	if err != nil {
		return err
	}
	how := "a restart"
	if _, ok := live.(*recorded); ok {
		how = "set_config reloaded the table from leases.json (as a restart does)"
	}
	if len(exempt) > 0 {
		ex := map[string]bool{}
		for _, l := range exempt {
			ex[l.key()] = true
		}
		keep := func(ls []lease) (out []lease) {
			for _, l := range ls {
				if !ex[l.key()] || l.Static {
					out = append(out, l)
				}
			}
			return out
		}
		tbl, after = keep(tbl), keep(after)
	}
	type k struct {
		ip     netip.Addr
		mac    string
		static bool
	}
	am := map[k]lease{}
	for _, l := range after {
		am[k{l.IP, l.MAC, l.Static}] = l
	}
	skipIP, skipHost := map[netip.Addr]bool{}, map[string]bool{}
	skip := func(a, b lease) {
		skipIP[a.IP] = true
		skipHost[a.Host], skipHost[b.Host] = true, true
	}
	for _, l := range exempt {
		skip(l, lease{IP: l.IP, Host: dashed(l.IP)})
	}
	bm := map[k]bool{}
	for _, l := range tbl {
		kk := k{l.IP, l.MAC, l.Static}
		bm[kk] = true
		a, ok := am[kk]
		var v *kernel.Violation
		taint := false
		switch {
		case !ok:
			cls := "restart-lease-lost"
			for _, o := range tbl {
				// The loss is explained by a name generated on load for an
				// entry without hostname clashing with this lease's name.
				if (o.Host == "" && !o.Static && l.Host != "" && dashed(o.IP) == l.Host) || (l.Host == "" && !l.Static && o.Host == dashed(l.IP)) {
					cls = "restart-lease-lost-generated-name-clash"
				}
			}
			if cls == "restart-lease-lost" && l.Host != "" {
				cnt := 0
				for _, o := range tbl {
					if o.Host == l.Host {
						cnt++
					}
				}
				if cnt > 1 {
					// Two leases carry the same hostname in memory; the
					// loader keeps only the first.
					cls = "restart-lease-lost-duplicate-hostname"
				}
			}
			v = kernel.Violationf(cls, "lease [%s] is not in the table after %s (table then: %v)", l, how, sortedStrings(after))
			if cls == "restart-lease-lost-duplicate-hostname" {
				// Two leases under one name: the hostname index is corrupt for
				// the rest of the case.
				taint = true
			}
		case a.Host != l.Host && l.Host == "" && a.Host == dashed(l.IP):
			v = kernel.Violationf("restart-empty-hostname-generated", "lease [%s] has no hostname, after %s it is named %q: HostByIP/IPByHost answers change", l, how, a.Host)
		case a.Host != l.Host:
			v = kernel.Violationf("restart-hostname-changed", "lease [%s] comes back from %s as [%s]", l, how, a)
		case !l.Static && a.Exp.Unix() != l.Exp.Unix():
			v = kernel.Violationf("restart-expiry-changed", "lease [%s] comes back from %s as [%s]", l, how, a)
		}
		if v != nil {
			skip(l, a)
			if err = n.report(v, l.key()); err != nil {
				return err
			}
			if taint {
				n.tainted = true
				return nil
			}
		}
	}
	for _, l := range after {
		if !bm[k{l.IP, l.MAC, l.Static}] {
			skip(l, l)
			if err = n.report(kernel.Violationf("restart-lease-appeared", "lease [%s] appears in the table after %s but was not in memory before (%v)", l, how, sortedStrings(tbl)), l.key()); err != nil {
				return err
			}
		}
	}
	// The answers given to DNS.
	ips := map[netip.Addr]bool{gatewayIP: true, selfIP: true}
	hosts := map[string]bool{}
	for i := 0; i < n.sc.Pool; i++ {
		ips[poolAddr(i)] = true
		hosts[dashed(poolAddr(i))] = true
	}
	for i := 0; i < n.size; i++ {
		ips[n.pAddr(i)] = true
		hosts[dashed(n.pAddr(i))] = true
	}
	_, other := addrAlphabet(n.sc.Pool)
	for _, s := range other {
		ips[netip.MustParseAddr(s)] = true
	}
	for _, h := range hostAlphabet {
		hosts[h], hosts[strings.ToLower(h)], hosts[strings.ReplaceAll(strings.ToLower(h), " ", "-")] = true, true, true
	}
	for _, l := range append(append([]lease{}, tbl...), after...) {
		ips[l.IP] = true
		hosts[l.Host] = true
	}
	ipList := make([]netip.Addr, 0, len(ips))
	for a := range ips {
		ipList = append(ipList, a)
	}
	sort.Slice(ipList, func(i, j int) bool { return ipList[i].Less(ipList[j]) })
	rec, _ := live.(*recorded)
	for _, a := range ipList {
		if skipIP[a] {
			continue
		}
		if rec != nil {
			if _, ok := rec.byIP[a]; !ok {
				continue
			}
		}
		if b, r := live.HostByIP(a), re.HostByIP(a); b != r {
			if err = n.report(kernel.Violationf("restart-dns-answer-changed", "HostByIP(%s) = %q before and %q after %s; table %v", a, b, r, how, sortedStrings(tbl)), a.String()); err != nil {
				return err
			}
		}
	}
	for _, h := range sortedKeys(hosts) {
		if skipHost[h] || h == "" {
			continue
		}
		if rec != nil {
			if _, ok := rec.byHost[h]; !ok {
				// A name nobody asked the server about before the reload.
				continue
			}
		}
		b, r := live.IPByHost(h), re.IPByHost(h)
		if b != r && !skipIP[b] && !skipIP[r] {
			cls := "restart-dns-answer-changed"
			if raw := live.VerifV4Table(); raw != nil {
				if il, ok := raw.HostsIndex[h]; ok && il.Hostname != h {
					// The live hostname index still maps the name to a lease
					// that no longer carries it.
					cls = "restart-dns-answer-changed-stale-hostname-index"
				}
			}
			if err = n.report(kernel.Violationf(cls, "IPByHost(%q) = %v before and %v after %s; table %v", h, b, r, how, sortedStrings(tbl)), h); err != nil {
				return err
			}
		}
	}
	return nil
}

func sortedKeys[V any](m map[string]V) []string {
	out := make([]string, 0, len(m))
	for k := range m {
		out = append(out, k)
	}
	sort.Strings(out)
	return out
}

func equalStrings(a, b []string) bool {
	if len(a) != len(b) {
		return false
	}
	for i := range a {
		if a[i] != b[i] {
			return false
		}
	}
	return true
}

func copyResv(m map[string]reservation) map[string]reservation {
	out := make(map[string]reservation, len(m))
	for k, v := range m {
		out[k] = v
	}
	return out
}

// ---- the run -----------------------------------------------------------------------

func (n *node) step(i int, op Op) error {
	if op.K == "par" {
		return n.par(i, op)
	}
	n.opIdx, n.op, n.undelivered, n.staleReload = i, op, false, false
	c := n.c
	before, _, err := n.tableOf(n.srv)
	if err != nil {
		return err
	}
	resvBefore := copyResv(n.resv)
	var (
		replies []reply
		desc    string
	)
	switch op.K {
	case "discover", "request", "decline", "release":
		if !n.enabled {
			// DHCP is switched off: the server has no socket, the message
			// reaches nobody.
			n.undelivered = true
			c.Probe("message_while_disabled")
			desc = fmt.Sprintf("%s m=%d not delivered (DHCP disabled)", op.K, op.M)
			break
		}
		if replies, err = n.send(op, before); err != nil {
			return err
		}
		for _, r := range replies {
			if !r.Yi.IsValid() || r.Yi.IsUnspecified() {
				continue
			}
			switch r.Type {
			case dhcpv4.MessageTypeOffer:
				n.clients[op.M].offered = r.Yi
			case dhcpv4.MessageTypeAck:
				n.clients[op.M].acked = r.Yi
			}
		}
		if len(replies) == 0 {
			c.Probe("silent")
		}
		n.heldAfterMsg = func() {
			me := macOf(op.M).String()
			drop := op.K == "release" || op.K == "decline"
			for _, r := range replies {
				drop = drop || r.Type == dhcpv4.MessageTypeNak
			}
			if drop {
				for _, a := range sortedAddrs(n.held) {
					if n.held[a].mac == me {
						delete(n.held, a)
					}
				}
			}
			for _, r := range replies {
				if op.K == "request" && r.Type == dhcpv4.MessageTypeAck && r.Yi.IsValid() && !r.Yi.IsUnspecified() {
					for _, a := range sortedAddrs(n.held) {
						if n.held[a].mac == me {
							delete(n.held, a)
						}
					}
					n.held[r.Yi] = holder{mac: me, exp: time.Now().Add(time.Duration(n.leaseSec) * time.Second)}
				}
			}
		}
		if op.K == "decline" && len(replies) > 0 && replies[0].Type == dhcpv4.MessageTypeAck && replies[0].Yi.IsValid() && !replies[0].Yi.IsUnspecified() {
			c.Probe("decline_reallocated")
		}
		if op.K == "release" {
			if _, had := findMAC(before, macOf(op.M).String()); had {
				cur, _, _ := n.tableOf(n.srv)
				if _, has := findMAC(cur, macOf(op.M).String()); !has {
					c.Probe("release_removed_lease")
				}
			}
		}
		desc = fmt.Sprintf("%s m=%d req=%s ci=%s sid=%s host=%q -> %v", op.K, op.M, op.Req, op.Ci, op.Sid, op.Host, replies)
	case "sadd", "supd", "srm":
		if desc, err = n.static(op, before); err != nil {
			return err
		}
	case "advance":
		d := time.Duration(op.Ms) * time.Millisecond
		time.Sleep(d)
		c.SimTime += d
		if op.Ms >= int64(n.leaseSec)*1000 {
			c.Fault("clock_jump_past_lease_time")
		}
		desc = fmt.Sprintf("advance %s", d)
	case "restart":
		old := n.srv
		if err = n.open(); err != nil {
			return err
		}
		c.Fault("clean_restart")
		if len(before) > 0 {
			c.Probe("restart_with_leases")
		}
		desc = "restart"
		if !n.tainted {
			d, _, derr := readDisk(n.srv.VerifDBPath())
			if err = n.afterReload(before, d, derr, old); err != nil {
				return err
			}
		}
	case "setconf":
		var (
			d    []lease
			derr error
			rec  *recorded
			ok   bool
		)
		if !n.tainted {
			d, _, derr = readDisk(n.srv.VerifDBPath())
			rec = n.record(before)
		}
		if desc, ok, err = n.setconf(op); err != nil {
			return err
		}
		if ok {
			c.Fault("config_reload")
			if len(before) > 0 {
				c.Probe("setconf_with_leases")
			}
		}
		if !n.tainted {
			cur, _, terr := n.tableOf(n.srv)
			if terr != nil {
				return terr
			}
			switch {
			case ok:
				if err = n.afterReload(before, d, derr, rec); err != nil {
					return err
				}
			case !equalStrings(sortedStrings(cur), sortedStrings(before)):
				return n.report(kernel.Violationf("setconf-rejected-changed-table", "%s: the request was refused but the table changed from %v to %v", desc, sortedStrings(before), sortedStrings(cur)), "")
			}
		}
	case "reset", "leases", "status", "hostbyip", "ipbyhost", "macbyip":
		// Only generated inside a concurrent phase; here one of them is judged
		// at its place in the serial order.
		out := execSub(n.srv, n.mux, n.clients, op, i, n.enabled, before)
		if out.err != nil {
			return out.err
		}
		desc = fmt.Sprintf("%s -> %s", subDesc(op), out.ans)
		if op.K == "reset" && out.code == http.StatusOK {
			// The administrator wiped the lease table, reservations included.
			n.resv = map[string]reservation{}
			c.Probe("leases_reset")
		}
	default:
		return fmt.Errorf("harness: unknown op %q", op.K)
	}
	tbl, _, err := n.tableOf(n.srv)
	if err != nil {
		return err
	}
	c.Eventf("op %d%s t=%s %s | table %v", i, n.sub, kernel.SimNow(), desc, sortedStrings(tbl))
	if n.tainted {
		c.Probe("ops_after_taint")
		return nil
	}
	err = n.check(before, resvBefore, replies, time.Now())
	// The clients' view follows the exchange (after the check, which judges
	// the reply against the view before it).
	if n.heldAfterMsg != nil {
		n.heldAfterMsg()
		n.heldAfterMsg = nil
	}
	if msgTypes[op.K] == 0 && op.K != "advance" {
		// Administrator operation or restart: leases it removed from the
		// table are revoked (whether it may do so is judged by I6/I7 and the
		// reservation checks).
		for _, a := range sortedAddrs(n.held) {
			backed := false
			for _, l := range tbl {
				// (A reload from a stale leases.json can also roll an entry back
				// to its state before the acknowledgement: that revokes it, too.)
				backed = backed || (l.IP == a && l.MAC == n.held[a].mac && (!n.staleReload || l.active(time.Now())))
			}
			if !backed {
				delete(n.held, a)
				c.Probe("held_lease_revoked_by_admin_or_restart")
			}
		}
	}
	return err
}

func sortedAddrs(m map[netip.Addr]holder) []netip.Addr {
	out := make([]netip.Addr, 0, len(m))
	for a := range m {
		out = append(out, a)
	}
	sort.Slice(out, func(i, j int) bool { return out[i].Less(out[j]) })
	return out
}

// Run executes one scenario.
func Run(t *testing.T, scAny any, c *kernel.Ctx) error {
	sched.Init()
	sc := scAny.(*Scenario)
	if sc.Pool < 2 || sc.Macs < 1 || sc.Macs > 200 || sc.LeaseSec < 1 {
		return fmt.Errorf("harness: bad scenario knobs")
	}
	dir, err := kernel.TempDir("c10")
	if err != nil {
		return err
	}
	defer os.RemoveAll(dir)
	return kernel.Bubble(t, func() error {
		time.Sleep(time.Duration(sc.StartMs) * time.Millisecond)
		n := &node{dir: dir, root: dir, sc: sc, c: c, clients: make([]client, sc.Macs), resv: map[string]reservation{}, seen: map[string]bool{}, held: map[netip.Addr]holder{}}
		n.lo, n.size, n.leaseSec, n.enabled = poolBase, sc.Pool, sc.LeaseSec, true
		n.snap = diskConf{Enabled: true, Iface: "verif0", GW: gatewayIP, Mask: subnetMask, Start: poolAddr(0), End: poolAddr(sc.Pool - 1), LeaseDuration: uint32(sc.LeaseSec)}
		if err := n.open(); err != nil {
			return err
		}
		for i, op := range sc.Ops {
			if op.M < 0 || op.M >= sc.Macs {
				return fmt.Errorf("harness: op %d: client index out of range", i)
			}
			for _, task := range op.Tasks {
				for _, sub := range task {
					if sub.M < 0 || sub.M >= sc.Macs {
						return fmt.Errorf("harness: op %d: client index out of range", i)
					}
				}
			}
			if err := n.step(i, op); err != nil {
				return err
			}
			c.Step()
		}
		return nil
	})
}

// Prop is the registration.
var Prop = &kernel.Property{
	ID:    "C10",
	Level: "exploration",
	Rule: "seeded histories (rapid) of DISCOVER / REQUEST (selecting with right or wrong server id and requested address, init-reboot, renew) / DECLINE / RELEASE from 1-25 simulated clients over a pool of 2-20 addresses, hostnames (valid, duplicate, invalid, empty, colliding with generated names), static-lease add/update/remove through the real HTTP handlers (inside/outside the pool, gateway, duplicates, malformed), clock advances aimed at the lease time, restarts, POST /control/dhcp/set_config (DHCP switched off and on again, the same or a moved/grown/shrunk range and lease time, invalid and incomplete sections) with static-lease operations, time and restarts while switched off; concurrent phases (op par, seeded cooperative scheduler on the instrumented copy of the tree): 2-4 overlapped tasks of 1-2 operations each (at most 5) - DISCOVER/REQUEST exchanges and single REQUEST (selecting, init-reboot, renew) / RELEASE / DECLINE of up to three different clients, static-lease add / update / remove (aimed at the address, client and hostname the messages are about), reset_leases, and the readers Leases / HostByIP / IPByHost / MACByIP / GET status - interleaved at the lock boundaries of the real code; " +
		"a case is non-trivial when >=1 dynamic lease was acknowledged and it saw >=1 restart, accepted configuration change, clock jump past the lease time, pool exhaustion, accepted static-lease operation or concurrent phase; distinct = distinct scenario digests",
	Gen: Gen,
	New: func() any { return &Scenario{} },
	Run: Run,
	NonTrivial: func(_ any, c *kernel.Ctx) bool {
		return c.Probes["dynamic_lease_acked"] > 0 && (c.Faults["clean_restart"] > 0 || c.Faults["config_reload"] > 0 || c.Faults["clock_jump_past_lease_time"] > 0 || c.Faults["pool_exhausted"] > 0 || c.Faults["overlapped_operations"] > 0 || c.Probes["static_added"]+c.Probes["static_updated"]+c.Probes["static_removed"] > 0)
	},
	Real:        []string{"internal/dhcpd locking (leasesLock acquisitions and releases are the scheduling points of the concurrent phase), reset_leases and status handlers, HostByIP / IPByHost / MACByIP / Leases as the DNS side calls them", "internal/dhcpd: Create, v4Server packet handler (handle, discover/request/decline/release), static-lease and set_config HTTP handlers, WriteDiskConfig (a restart is created from what the server reported at its last ConfigModified), lease indexes and pool bitset, dbStore/dbLoad + leases.json (renameio) on tmpfs", "github.com/insomniacslk/dhcp/dhcpv4 wire format (requests and replies cross it)"},
	Stub:        []string{"DHCP raw/UDP sockets (fake net.PacketConn capturing replies)", "interface probing of Start (server addresses injected through configureDNSIPAddrs; the Start that set_config attempts fails on the non-existent interface and its error answer is disregarded)", "ICMP conflict probe (ICMPTimeout=0)", "DHCP clients (simulated state machines)", "admin HTTP client (handlers called in-process)", "wall clock (synctest fake clock)", "DHCPv6 (disabled)"},
	Assumptions: []string{"reservations are what the static-lease API itself confirmed with 200", "a lease is unexpired while its expiry is after now; at the exact expiry instant an address counts as taken for the offer-liveness clause only", "addresses merely offered (never acknowledged) do not count as leased for the offer-liveness clause", "expiry is compared at one-second resolution across disk and restart, and the last second of a client's lease is not judged (leases.json and the lease-time option carry whole seconds)", "a client holds an acknowledged address until its lease time runs out, it sends RELEASE/DECLINE, it is NAKed, or an administrator operation / restart removes the lease from the table (those removals are judged by I6/I7)", "while DHCP is switched off no message reaches the server", "a configuration is in force when the server announced the change (ConfigModified); what becomes of dynamic leases outside a newly configured pool is left open and not asserted (they must not stay in the table as dynamic leases)", "concurrent phase: every DHCP packet is handled on a goroutine of its own (server4.Serve) next to the admin API handlers and the DNS-side readers, so messages of different clients, admin calls and reads overlap; the messages of ONE client do not (a client waits for the answer), nor do the calls of one administrator task", "concurrent phase: each overlapped operation (one message, one admin call, one read) takes effect at one moment between its start and its end; the statement does not say which of two overlapped operations comes first (who gets the contested address, whether the static add or the REQUEST wins), so every serial order that keeps each task's own order is accepted - and nothing else: the answers of all operations and the state afterwards (lease table, the index entries HostByIP/IPByHost/MACByIP answer from, pool bitset) must be those of ONE such order, and leases.json must list the table (or be as stale as that serial order leaves it through a listed finding of a sequential operation)", "concurrent phase: C10 has no allocator model (which free address is offered is left open), so the serial orders are executed by the implementation itself, one operation at a time, on exact copies of the server as it was before the phase; the explaining serial execution is then judged operation by operation by the sequential oracle (I1..I7, offer liveness, reservations, held addresses), and the invariants are checked once more on the live server", "concurrent phase: set_config, reset (factory), find_active_dhcp and interfaces are not overlapped (set_config swaps the whole server object without synchronisation and probes the network; it is exercised sequentially)", "all-zero MAC (the implementation's conflict marker) and 8/20-byte hardware addresses are not generated", "after a listed finding that leaves the table persistently corrupt (same lease listed twice, I1/I2/I3 broken, two leases under one hostname, a reserved client answered another address) the rest of that case only looks for crashes; listed findings that heal with the next store or only concern a restart do not end the checking"},
	FaultKinds:  []string{"clean_restart", "config_reload", "clock_jump_past_lease_time", "pool_exhausted", "client_wrong_server_id", "overlapped_operations"},
	ProbeNames: []string{"offer", "ack", "nak", "silent", "dynamic_lease_acked", "static_lease_acked", "reply_to_reserved_client", "static_added", "static_added_outside_pool", "static_updated", "static_removed", "static_remove_hit_dynamic", "static_rejected",
		"decline_reallocated", "release_removed_lease", "discover_new_client_free_address", "offer_recycled_entry", "expired_lease_in_table", "restart_with_leases", "shadow_restart_checked", "held_lease_revoked_by_admin_or_restart", "reservation_dropped_by_restart", "restart_from_stale_disk", "table_dup_seen", "table_invariant_broken_seen", "disk_differs_seen", "ops_after_taint",
		"setconf_enabled", "setconf_disabled", "setconf_range_changed", "setconf_rejected", "setconf_start_stubbed", "setconf_with_leases", "message_while_disabled", "lease_outside_new_pool",
		"sched_steps", "sched_switches", "par_interleaved", "par_serializable", "par_serial_orders_tried", "par_completion_order_not_serial_order", "par_neither_completion_nor_start_order", "leases_reset"},
}
