// Package c04 decides property C04 (each request is attributed to at most one
// persistent client by the precedence ClientID > exact IP > most specific
// containing CIDR > MAC of the DHCP lease; that client's own settings apply
// exactly when it opts out of the global ones; the registry stays consistent
// under any add / update / remove history and rejects clashes atomically) by
// deterministic simulation on engine E1: seeded histories over the real
// client.Storage wired into the real filtering/dnsforward pipeline, a
// simulated DHCP lease table whose leases expire with the fake clock, pause
// schedules on the global and on every client's own blocked services (so that
// "the client's own blocked-services settings, never the global ones" is
// observed inside and outside the windows as the clock moves), and a map
// reference model compared after every operation.  Two or three registry
// operations issued at the same time run as tasks of the seeded cooperative
// scheduler (mode D; answers and registry must be those of one serial order),
// and a restart rebuilds the registry from the configuration file that the
// real configuration writer produced.
package c04

import (
	"context"
	"encoding/json"
	"fmt"
	"log/slog"
	"net"
	"net/netip"
	"os"
	"sort"
	"strings"
	"testing"
	"time"

	"github.com/AdguardTeam/AdGuardHome/internal/client"
	"github.com/AdguardTeam/AdGuardHome/internal/dhcpsvc"
	"github.com/AdguardTeam/AdGuardHome/internal/dnsforward"
	"github.com/AdguardTeam/AdGuardHome/internal/filtering"
	"github.com/AdguardTeam/AdGuardHome/internal/home"
	"github.com/AdguardTeam/AdGuardHome/internal/schedule"
	"github.com/AdguardTeam/AdGuardHome/verifsim/dnsnode"
	"github.com/AdguardTeam/AdGuardHome/verifsim/env"
	"github.com/AdguardTeam/AdGuardHome/verifsim/kernel"
	"github.com/AdguardTeam/AdGuardHome/verifsim/sched"
	"github.com/miekg/dns"
	"pgregory.net/rapid"
)

// Pause is a pause schedule of blocked services: every day of the week, from
// minute S to minute E (exclusive) of the day in UTC.  nil = never paused.
type Pause struct {
	S int `json:"s"`
	E int `json:"e"`
}

// in is the reference: whether t's time of day (UTC) lies in [S, E).
func (p *Pause) in(t time.Time) bool {
	if p == nil {
		return false
	}
	u := t.UTC()
	sec := u.Hour()*3600 + u.Minute()*60 + u.Second()
	return p.S*60 <= sec && sec < p.E*60
}

// weekly builds the schedule the way the admin API receives it (JSON).
func (p *Pause) weekly() (*schedule.Weekly, error) {
	if p == nil {
		return schedule.EmptyWeekly(), nil
	}
	doc := map[string]any{"time_zone": "UTC"}
	for _, d := range []string{"sun", "mon", "tue", "wed", "thu", "fri", "sat"} {
		doc[d] = map[string]int64{"start": int64(p.S) * 60_000, "end": int64(p.E) * 60_000}
	}
	b, _ := json.Marshal(doc)
	w := &schedule.Weekly{}
	if err := json.Unmarshal(b, w); err != nil {
		return nil, fmt.Errorf("harness: schedule %s: %w", b, err)
	}
	return w, nil
}

// genPause draws a pause schedule whose edges lie where the simulated clock of
// a case (midnight + seconds .. hours) crosses them.
func genPause(t *rapid.T, label string) *Pause {
	switch k := rapid.IntRange(0, 19).Draw(t, label+"_kind"); {
	case k < 8:
		return nil
	case k < 11:
		return &Pause{0, 1440}
	case k < 16:
		return &Pause{0, rapid.SampledFrom([]int{1, 2, 60, 61, 121, 600}).Draw(t, label+"_end")}
	case k < 18:
		return &Pause{rapid.SampledFrom([]int{1, 2, 60, 61, 121}).Draw(t, label+"_start"), 1440}
	default:
		st := rapid.SampledFrom([]int{1, 2, 60, 61}).Draw(t, label+"_start")
		return &Pause{st, st + rapid.SampledFrom([]int{1, 59, 60, 120}).Draw(t, label+"_len")}
	}
}

// Spec is the administrator's description of one persistent client.
type Spec struct {
	Name        string   `json:"name"`
	IDs         []string `json:"ids"`
	OwnSettings bool     `json:"own"`
	Filtering   bool     `json:"filt"`
	SafeBrowse  bool     `json:"sb"`
	Parental    bool     `json:"par"`
	SafeSearch  bool     `json:"ss"`
	OwnServices bool     `json:"own_svc"`
	Services    []string `json:"svc,omitempty"`
	// Pause is the pause schedule of the client's own blocked services.
	Pause *Pause `json:"pause,omitempty"`
	// IgnoreLog / IgnoreStats: the client's "do not log" / "do not count"
	// flags (part of what the registry stores and the configuration keeps).
	IgnoreLog   bool `json:"ign_log,omitempty"`
	IgnoreStats bool `json:"ign_stats,omitempty"`
}

// Op is one generated operation.
type Op struct {
	Kind string `json:"k"` // add update remove par restart lease unlease advance lookup query
	Spec *Spec  `json:"spec,omitempty"`
	Name string `json:"name,omitempty"` // update/remove target
	// lease
	IP   string `json:"ip,omitempty"`
	MAC  string `json:"mac,omitempty"`
	TTLs int    `json:"ttl_s,omitempty"` // 0 = static
	// advance
	Secs int `json:"secs,omitempty"`
	// lookup / query
	ID  string `json:"id,omitempty"`
	CID string `json:"cid,omitempty"`
	// par: two or three registry operations (add / update / remove) issued at
	// the same time; they run as tasks of the seeded cooperative scheduler,
	// interleaved at lock boundaries as a function of Seed, with preemption
	// probability Pct.
	Par  []Op   `json:"par,omitempty"`
	Seed uint64 `json:"seed,omitempty"`
	Pct  int    `json:"pct,omitempty"`
	// par: request-side lookups in flight at the same time as the registry
	// operations (each one more task of the same phase).
	Look []Look `json:"look,omitempty"`
}

// Look is one request-side lookup of a concurrent phase.
type Look struct {
	// Kind: "find" = Storage.Find(ID) for any identifier text; "loose" =
	// Storage.FindLoose(ID, ID) for a source address; "settings" = the effective
	// filtering settings of a request from address ID with ClientID CID
	// (DNSFilter.ApplyAdditionalFiltering -> Storage.ApplyClientFiltering).
	Kind string `json:"k"`
	ID   string `json:"id"`
	CID  string `json:"cid,omitempty"`
}

// Scenario is one case.
type Scenario struct {
	GlobalFiltering bool     `json:"g_filt"`
	GlobalSB        bool     `json:"g_sb"`
	GlobalParental  bool     `json:"g_par"`
	GlobalSS        bool     `json:"g_ss"`
	GlobalServices  []string `json:"g_svc"`
	// GlobalPause is the pause schedule of the global blocked services.
	GlobalPause *Pause `json:"g_pause,omitempty"`
	Ops         []Op   `json:"ops"`
}

var (
	names   = []string{"alpha", "beta", "gamma", "delta", "eps"}
	ipIDs   = []string{"10.0.0.1", "10.0.0.2", "10.0.1.1", "10.1.1.1", "192.0.2.9", "2001:db8::1", "2001:db8:0:1::1", "fe80::1%eth0"}
	netIDs  = []string{"10.0.0.0/8", "10.0.0.0/16", "10.0.0.0/24", "10.0.0.0/31", "10.0.1.0/24", "2001:db8::/32", "2001:db8::/64", "192.0.2.0/24"}
	macIDs  = []string{"aa:bb:cc:dd:ee:01", "aa:bb:cc:dd:ee:02", "01-02-03-04-05-06-07-08", "00:01:02:03:04:05:06:07:08:09:0a:0b:0c:0d:0e:0f:10:11:12:13"}
	cidIDs  = []string{"phone", "laptop", "tv"}
	srcIPs  = []string{"10.0.0.1", "10.0.0.2", "10.0.0.77", "10.0.1.1", "10.0.1.200", "10.1.1.1", "10.9.9.9", "192.0.2.9", "192.0.2.10", "198.51.100.1", "2001:db8::1", "2001:db8::2", "2001:db8:0:1::1", "2001:db8:ffff::1", "fe80::1%eth0"}
	svcPool = []string{"4chan", "9gag"}
)

func genSpec(t *rapid.T) *Spec {
	s := &Spec{Name: rapid.SampledFrom(names).Draw(t, "name")}
	seen := map[string]bool{}
	for i, n := 0, rapid.IntRange(1, 4).Draw(t, "n_ids"); i < n; i++ {
		var id string
		switch rapid.IntRange(0, 3).Draw(t, "id_kind") {
		case 0:
			id = rapid.SampledFrom(ipIDs).Draw(t, "id_ip")
		case 1:
			id = rapid.SampledFrom(netIDs).Draw(t, "id_net")
		case 2:
			id = rapid.SampledFrom(macIDs).Draw(t, "id_mac")
		default:
			id = rapid.SampledFrom(cidIDs).Draw(t, "id_cid")
		}
		if !seen[id] {
			seen[id] = true
			s.IDs = append(s.IDs, id)
		}
	}
	s.OwnSettings = rapid.Bool().Draw(t, "own")
	s.Filtering = rapid.Bool().Draw(t, "filt")
	s.SafeBrowse = rapid.Bool().Draw(t, "sb")
	s.Parental = rapid.Bool().Draw(t, "par")
	s.SafeSearch = rapid.Bool().Draw(t, "ss")
	s.OwnServices = rapid.Bool().Draw(t, "own_svc")
	s.Services = rapid.SliceOfNDistinct(rapid.SampledFrom(svcPool), 0, 2, rapid.ID[string]).Draw(t, "svc")
	s.Pause = genPause(t, "pause")
	s.IgnoreLog = rapid.IntRange(0, 3).Draw(t, "ign_log") == 0
	s.IgnoreStats = rapid.IntRange(0, 3).Draw(t, "ign_stats") == 0
	return s
}

// genPar draws one concurrent phase: two or three registry operations that
// the administrator(s) issue at the same time — any mixture of add / update /
// remove, most of them aimed at one client (the same name as target, as new
// name, or both), the rest anywhere — and up to three request-side lookups in
// flight meanwhile.  gm is the generator's own copy of the reference model
// (registry and lease table as the history so far leaves them, leases taken as
// static): it only aims the draws — at a client that exists, at a device (a
// source address) that is attributed to it, at updates that identify the same
// device by another of its identifiers (its address, a network around it, the
// MAC of its lease, a ClientID) — and decides nothing.
func genPar(t *rapid.T, gm *model, leaseText map[string]string) Op {
	op := Op{Kind: "par", Seed: rapid.Uint64().Draw(t, "par_seed"), Pct: rapid.SampledFrom([]int{20, 50, 80}).Draw(t, "par_pct")}
	var existing []string
	for _, n := range names {
		if _, ok := gm.clients[n]; ok {
			existing = append(existing, n)
		}
	}
	// Source addresses that are attributed through the MAC of their lease.
	var leaseDevs []string
	for _, ip := range srcIPs {
		if _, how := gm.attribute("", netip.MustParseAddr(ip)); how == "mac" {
			leaseDevs = append(leaseDevs, ip)
		}
	}
	var focus string
	switch k := rapid.IntRange(0, 9).Draw(t, "par_focus_kind"); {
	case k < 5 && len(leaseDevs) > 0:
		// The owner of a device that is known through its lease.
		focus, _ = gm.attribute("", netip.MustParseAddr(rapid.SampledFrom(leaseDevs).Draw(t, "par_focus_lease_dev")))
	case k < 8 && len(existing) > 0:
		focus = rapid.SampledFrom(existing).Draw(t, "par_focus_existing")
	default:
		focus = rapid.SampledFrom(names).Draw(t, "par_focus")
	}
	pick := func(label string) string {
		if rapid.IntRange(0, 9).Draw(t, label+"_on_focus") < 7 {
			return focus
		}
		return rapid.SampledFrom(names).Draw(t, label)
	}
	// The device of the phase: mostly a source address that the registry
	// attributes to the focus client, preferably through the MAC of its lease.
	var mine, byMAC []string
	for _, ip := range srcIPs {
		if n, how := gm.attribute("", netip.MustParseAddr(ip)); n != "" && n == focus {
			mine = append(mine, ip)
			if how == "mac" {
				byMAC = append(byMAC, ip)
			}
		}
	}
	var dev string
	switch k := rapid.IntRange(0, 9).Draw(t, "par_dev_kind"); {
	case k < 6 && len(byMAC) > 0:
		dev = rapid.SampledFrom(byMAC).Draw(t, "par_dev_mac")
	case k < 8 && len(mine) > 0:
		dev = rapid.SampledFrom(mine).Draw(t, "par_dev_mine")
	default:
		dev = rapid.SampledFrom(srcIPs).Draw(t, "par_dev")
	}
	// The identifiers by which an administrator may describe that device.
	devAddr := netip.MustParseAddr(dev)
	devIDs := []string{dev}
	for _, n := range netIDs {
		if netip.MustParsePrefix(n).Contains(devAddr.WithZone("")) {
			devIDs = append(devIDs, n)
		}
	}
	if mac, ok := leaseText[dev]; ok {
		devIDs = append(devIDs, mac)
	}
	devIDs = append(devIDs, rapid.SampledFrom(cidIDs).Draw(t, "par_dev_cid"))
	spec := func(name string) *Spec {
		sp := genSpec(t)
		if name != "" {
			sp.Name = name
		}
		if rapid.Bool().Draw(t, "par_reidentify") {
			sp.IDs = rapid.SliceOfNDistinct(rapid.SampledFrom(devIDs), 1, 2, rapid.ID[string]).Draw(t, "par_dev_ids")
		}
		return sp
	}
	for i, n := 0, rapid.SampledFrom([]int{1, 2, 2, 2, 3}).Draw(t, "par_n"); i < n; i++ {
		var sub Op
		switch rapid.SampledFrom([]string{"add", "update", "update", "update", "remove"}).Draw(t, "par_kind") {
		case "add":
			name := ""
			if rapid.Bool().Draw(t, "par_add_focus") {
				name = focus
			}
			sub = Op{Kind: "add", Spec: spec(name)}
		case "update":
			sub = Op{Kind: "update", Name: pick("par_target")}
			name := ""
			if rapid.IntRange(0, 9).Draw(t, "par_keep_name") < 6 {
				name = sub.Name
			}
			sub.Spec = spec(name)
		default:
			sub = Op{Kind: "remove", Name: pick("par_target")}
		}
		op.Par = append(op.Par, sub)
	}
	nLook := rapid.SampledFrom([]int{0, 1, 1, 2, 2, 3}).Draw(t, "par_n_look")
	if len(op.Par) == 1 && nLook == 0 {
		nLook = 1
	}
	for i := 0; i < nLook; i++ {
		lk := Look{Kind: rapid.SampledFrom([]string{"settings", "settings", "settings", "find", "loose"}).Draw(t, "look_kind")}
		onDev := rapid.IntRange(0, 9).Draw(t, "look_on_dev") < 7
		switch {
		case onDev:
			lk.ID = dev
		case lk.Kind == "find":
			lk.ID = rapid.SampledFrom(lookupIDs()).Draw(t, "look_id")
		default:
			lk.ID = rapid.SampledFrom(srcIPs).Draw(t, "look_ip")
		}
		if lk.Kind == "settings" && rapid.IntRange(0, 2).Draw(t, "look_has_cid") == 0 {
			lk.CID = rapid.SampledFrom(append([]string{"nobody"}, cidIDs...)).Draw(t, "look_cid")
		}
		op.Look = append(op.Look, lk)
	}
	return op
}

// leasedIPs returns the addresses of srcIPs that have a lease according to the
// generator's bookkeeping, in the order of srcIPs.
func leasedIPs(leaseText map[string]string) (out []string) {
	for _, ip := range srcIPs {
		if _, ok := leaseText[ip]; ok {
			out = append(out, ip)
		}
	}
	return out
}

// lookupIDs is every identifier text of the universe a lookup may ask for.
func lookupIDs() (all []string) {
	all = append(all, cidIDs...)
	all = append(all, "nobody")
	all = append(all, macIDs...)
	all = append(all, srcIPs...)
	return all
}

// Gen draws a scenario.
func Gen(t *rapid.T, tier string) any {
	sc := &Scenario{
		GlobalFiltering: rapid.Bool().Draw(t, "g_filt"), GlobalSB: rapid.Bool().Draw(t, "g_sb"),
		GlobalParental: rapid.Bool().Draw(t, "g_par"), GlobalSS: rapid.Bool().Draw(t, "g_ss"),
		GlobalServices: rapid.SliceOfNDistinct(rapid.SampledFrom(svcPool), 0, 2, rapid.ID[string]).Draw(t, "g_svc"),
	}
	sc.GlobalPause = genPause(t, "g_pause")
	// The generator's own copy of the reference model; see genPar.
	gm := &model{clients: map[string]*Spec{}, sc: sc, dhcp: &simDHCP{leases: map[netip.Addr]lease{}}}
	leaseText := map[string]string{}
	maxOps := 40
	if tier == "thorough" {
		maxOps = 90
	}
	for i, n := 0, rapid.IntRange(5, maxOps).Draw(t, "n_ops"); i < n; i++ {
		var op Op
		switch k := rapid.IntRange(0, 120).Draw(t, "kind"); {
		case k >= 118:
			op = Op{Kind: "restart"}
		case k >= 100:
			op = genPar(t, gm, leaseText)
		case k < 22:
			op = Op{Kind: "add", Spec: genSpec(t)}
		case k < 37:
			op = Op{Kind: "update", Name: rapid.SampledFrom(names).Draw(t, "target"), Spec: genSpec(t)}
		case k < 45:
			op = Op{Kind: "remove", Name: rapid.SampledFrom(names).Draw(t, "target")}
		case k < 56:
			op = Op{Kind: "lease", IP: rapid.SampledFrom(srcIPs[:10]).Draw(t, "lease_ip"), MAC: rapid.SampledFrom(macIDs).Draw(t, "lease_mac"), TTLs: rapid.SampledFrom([]int{0, 60, 3600}).Draw(t, "lease_ttl")}
			// Half of the leases are aimed with the generator's copy of the model:
			// the device of a known client (a MAC that a client owns) gets an
			// address that no client claims by address or network, so that the
			// last step of the precedence decides.
			if rapid.Bool().Draw(t, "lease_aimed") {
				var owned, free []string
				for _, mac := range macIDs {
					if gm.owner(mac) != "" {
						owned = append(owned, mac)
					}
				}
				for _, ip := range srcIPs[:10] {
					if _, has := leaseText[ip]; has {
						continue
					}
					if n, _ := gm.attribute("", netip.MustParseAddr(ip)); n == "" {
						free = append(free, ip)
					}
				}
				if len(owned) > 0 {
					op.MAC = rapid.SampledFrom(owned).Draw(t, "lease_mac_owned")
				}
				if len(free) > 0 {
					op.IP = rapid.SampledFrom(free).Draw(t, "lease_ip_free")
				}
			}
		case k < 58:
			op = Op{Kind: "unlease", IP: rapid.SampledFrom(srcIPs[:10]).Draw(t, "unlease_ip")}
		case k < 65:
			op = Op{Kind: "advance", Secs: rapid.SampledFrom([]int{1, 59, 61, 3599, 3601}).Draw(t, "secs")}
		case k < 78:
			var id string
			switch rapid.IntRange(0, 3).Draw(t, "lk_kind") {
			case 0:
				id = rapid.SampledFrom(srcIPs).Draw(t, "lk_ip")
			case 1:
				id = rapid.SampledFrom(macIDs).Draw(t, "lk_mac")
			case 2:
				id = rapid.SampledFrom(append([]string{"nobody"}, cidIDs...)).Draw(t, "lk_cid")
			default:
				id = rapid.SampledFrom(names).Draw(t, "lk_name")
				id = "name:" + id
			}
			op = Op{Kind: "lookup", ID: id}
		default:
			op = Op{Kind: "query", IP: rapid.SampledFrom(srcIPs).Draw(t, "q_ip")}
			if leased := leasedIPs(leaseText); len(leased) > 0 && rapid.IntRange(0, 3).Draw(t, "q_leased") == 0 {
				op.IP = rapid.SampledFrom(leased).Draw(t, "q_ip_leased")
			}
			if rapid.IntRange(0, 2).Draw(t, "q_has_cid") == 0 {
				op.CID = rapid.SampledFrom(append([]string{"nobody"}, cidIDs...)).Draw(t, "q_cid")
			}
		}
		sc.Ops = append(sc.Ops, op)
		switch op.Kind {
		case "add", "update", "remove":
			gm.serial(&op)
		case "par":
			for i := range op.Par {
				gm.serial(&op.Par[i])
			}
		case "lease":
			mac, _ := net.ParseMAC(op.MAC)
			gm.dhcp.leases[netip.MustParseAddr(op.IP)] = lease{mac: mac}
			leaseText[op.IP] = op.MAC
		case "unlease":
			delete(gm.dhcp.leases, netip.MustParseAddr(op.IP))
			delete(leaseText, op.IP)
		}
	}
	return sc
}

// ---- simulated DHCP (lease table with expiry on the simulated clock) --------

type lease struct {
	mac    net.HardwareAddr
	expiry time.Time // zero: static
}

type simDHCP struct {
	leases map[netip.Addr]lease
	// parAsks counts the questions asked by tasks of a concurrent phase.
	parAsks int
}

func (d *simDHCP) live(ip netip.Addr) (lease, bool) {
	l, ok := d.leases[ip]
	if !ok || (!l.expiry.IsZero() && !time.Now().Before(l.expiry)) {
		return lease{}, false
	}
	return l, true
}

func (d *simDHCP) Leases() []*dhcpsvc.Lease   { return nil }
func (d *simDHCP) HostByIP(netip.Addr) string { return "" }
func (d *simDHCP) MACByIP(ip netip.Addr) net.HardwareAddr {
	// The DHCP server takes its time to answer: during a concurrent phase the
	// question is a point at which the other tasks may run.
	if sched.Yield() {
		d.parAsks++
	}
	if l, ok := d.live(ip); ok {
		return l.mac
	}
	return nil
}

// ---- reference model ---------------------------------------------------------

type model struct {
	clients map[string]*Spec // by name
	sc      *Scenario
	dhcp    *simDHCP
}

func normID(id string) string {
	if strings.HasPrefix(id, "mac:") {
		return id // already normalised (hardware address of a lease)
	}
	// Same order as the admin API's identifier parsing: address, prefix, MAC,
	// else ClientID.
	if ip, err := netip.ParseAddr(id); err == nil {
		return "ip:" + ip.String()
	}
	if p, err := netip.ParsePrefix(id); err == nil {
		return "net:" + p.String()
	}
	if mac, err := net.ParseMAC(id); err == nil {
		return "mac:" + mac.String()
	}
	return "cid:" + id
}

// owner returns the name of the client owning identifier id exactly.
func (m *model) owner(id string) string {
	for name, c := range m.clients {
		for _, x := range c.IDs {
			if normID(x) == normID(id) {
				return name
			}
		}
	}
	return ""
}

// canStore says whether spec may be stored under uid-holder self ("" for add).
func (m *model) clash(spec *Spec, self string) string {
	if o, ok := m.clients[spec.Name]; ok && o.Name != self {
		return "name " + spec.Name
	}
	for _, id := range spec.IDs {
		if o := m.owner(id); o != "" && o != self {
			return "identifier " + id + " of " + o
		}
	}
	return ""
}

// serial applies one registry operation (add / update / remove) to the
// reference registry the way the statement has it — accepted unless it names
// a client that does not exist or would make two clients share a name or an
// identifier; a rejected operation changes nothing — and says whether it is
// accepted.
func (m *model) serial(op *Op) (accepted bool) {
	switch op.Kind {
	case "add":
		if m.clash(op.Spec, "") != "" {
			return false
		}
		m.clients[op.Spec.Name] = op.Spec
	case "update":
		if _, ok := m.clients[op.Name]; !ok || m.clash(op.Spec, op.Name) != "" {
			return false
		}
		delete(m.clients, op.Name)
		m.clients[op.Spec.Name] = op.Spec
	case "remove":
		if _, ok := m.clients[op.Name]; !ok {
			return false
		}
		delete(m.clients, op.Name)
	}
	return true
}

func cloneClients(in map[string]*Spec) map[string]*Spec {
	out := make(map[string]*Spec, len(in))
	for k, v := range in {
		out[k] = v
	}
	return out
}

// orders returns every order of n operations (n <= 3), in a fixed sequence.
func orders(n int) [][]int {
	switch n {
	case 1:
		return [][]int{{0}}
	case 2:
		return [][]int{{0, 1}, {1, 0}}
	default:
		return [][]int{{0, 1, 2}, {0, 2, 1}, {1, 0, 2}, {1, 2, 0}, {2, 0, 1}, {2, 1, 0}}
	}
}

// attribute implements the precedence of the statement.
func (m *model) attribute(cid string, addr netip.Addr) (name, how string) {
	if cid != "" {
		if o := m.owner(cid); o != "" {
			return o, "clientid"
		}
	}
	if addr.IsValid() {
		if o := m.owner(addr.String()); o != "" {
			return o, "ip"
		}
		best, bestBits := "", -1
		for n, c := range m.clients {
			for _, id := range c.IDs {
				p, err := netip.ParsePrefix(id)
				if err != nil {
					continue
				}
				if p.Contains(addr.WithZone("")) && p.Bits() > bestBits {
					best, bestBits = n, p.Bits()
				}
			}
		}
		if best != "" {
			return best, "cidr"
		}
		if l, ok := m.dhcp.live(addr); ok {
			if o := m.owner("mac:" + l.mac.String()); o != "" {
				return o, "mac"
			}
		}
	}
	return "", ""
}

type effective struct {
	client            string
	filt, sb, par, ss bool
	services          []string
}

func (m *model) effective(cid string, addr netip.Addr) effective {
	// Blocked-services settings are a list and a pause schedule; inside the
	// pause nothing of the list is applied.
	now := time.Now()
	e := effective{filt: m.sc.GlobalFiltering, sb: m.sc.GlobalSB, par: m.sc.GlobalParental, ss: m.sc.GlobalSS, services: m.sc.GlobalServices}
	if m.sc.GlobalPause.in(now) {
		e.services = nil
	}
	name, _ := m.attribute(cid, addr)
	if name == "" {
		return e
	}
	c := m.clients[name]
	e.client = name
	if c.OwnSettings {
		e.filt, e.sb, e.par, e.ss = c.Filtering, c.SafeBrowse, c.Parental, c.SafeSearch
	}
	if c.OwnServices {
		// The client's own list and its own schedule, never the global ones.
		e.services = c.Services
		if c.Pause.in(now) {
			e.services = nil
		}
	}
	return e
}

// ---- run ---------------------------------------------------------------------

type runner struct {
	c   *kernel.Ctx
	n   *dnsnode.Node
	m   *model
	cfg *dnsnode.Config
	// abandon: a deadlock was found; the parked tasks hold the node's locks.
	abandon bool
}

func toPersistent(s *Spec) (*client.Persistent, error) {
	p := &client.Persistent{Name: s.Name, UID: client.MustNewUID(), UseOwnSettings: s.OwnSettings, FilteringEnabled: s.Filtering,
		SafeBrowsingEnabled: s.SafeBrowse, ParentalEnabled: s.Parental, UseOwnBlockedServices: s.OwnServices}
	p.SafeSearchConf.Enabled = s.SafeSearch
	p.IgnoreQueryLog, p.IgnoreStatistics = s.IgnoreLog, s.IgnoreStats
	w, err := s.Pause.weekly()
	if err != nil {
		return nil, err
	}
	p.BlockedServices = &filtering.BlockedServices{IDs: s.Services, Schedule: w}
	if err := p.SetIDs(s.IDs); err != nil {
		return nil, fmt.Errorf("harness: SetIDs %v: %w", s.IDs, err)
	}
	return p, nil
}

// schedText is the schedule as the admin API would show it.
func schedText(w *schedule.Weekly) string {
	b, err := json.Marshal(w)
	if err != nil {
		return "unserialisable: " + err.Error()
	}
	return string(b)
}

func (r *runner) dump() string {
	var lines []string
	r.n.Clients.RangeByName(func(c *client.Persistent) bool {
		ids := c.IDs()
		sort.Strings(ids)
		lines = append(lines, fmt.Sprintf("%s ids=%v own=%v/%v/%v/%v/%v svc=%v/%v pause=%s", c.Name, ids, c.UseOwnSettings, c.FilteringEnabled, c.SafeBrowsingEnabled, c.ParentalEnabled, c.SafeSearchConf.Enabled, c.UseOwnBlockedServices, c.BlockedServices.IDs, schedText(c.BlockedServices.Schedule)))
		return true
	})
	return strings.Join(lines, "\n")
}

func (r *runner) modelDump() string {
	var ns []string
	for n := range r.m.clients {
		ns = append(ns, n)
	}
	sort.Strings(ns)
	var lines []string
	for _, n := range ns {
		c := r.m.clients[n]
		p, _ := toPersistent(c)
		ids := p.IDs()
		sort.Strings(ids)
		lines = append(lines, fmt.Sprintf("%s ids=%v own=%v/%v/%v/%v/%v svc=%v/%v pause=%s", c.Name, ids, c.OwnSettings, c.Filtering, c.SafeBrowse, c.Parental, c.SafeSearch, c.OwnServices, c.Services, schedText(p.BlockedServices.Schedule)))
	}
	return strings.Join(lines, "\n")
}

// checkRegistry compares the whole registry and every identifier of the small
// universe with the model.
func (r *runner) checkRegistry() error {
	if got, want := r.dump(), r.modelDump(); got != want {
		return kernel.Violationf("registry-mismatch", "registry:\n%s\nreference model:\n%s", got, want)
	}
	if got, want := r.n.Clients.Size(), len(r.m.clients); got != want {
		return kernel.Violationf("registry-size", "Size()=%d, model has %d clients", got, want)
	}
	for _, n := range names {
		p, ok := r.n.Clients.FindByName(n)
		_, want := r.m.clients[n]
		if ok != want || (ok && p.Name != n) {
			return kernel.Violationf("find-by-name", "FindByName(%q) = %v, model says %v", n, ok, want)
		}
	}
	for _, id := range lookupIDs() {
		if err := r.checkFind(id); err != nil {
			return err
		}
	}
	return nil
}

func (r *runner) checkFind(id string) error {
	var want string
	if ip, err := netip.ParseAddr(id); err == nil {
		want, _ = r.m.attribute("", ip)
	} else {
		want = r.m.owner(id)
	}
	p, ok := r.n.Clients.Find(id)
	got := ""
	if ok {
		got = p.Name
	}
	if got != want {
		return kernel.Violationf("find-mismatch", "Find(%q) resolves to %q, reference model (ClientID > exact IP > most specific CIDR > MAC of the DHCP lease) says %q\nregistry:\n%s", id, got, want, r.dump())
	}
	if ip, err := netip.ParseAddr(id); err == nil {
		// The lookup used for query-log entries, asked with the address as the
		// identifier: over this universe (no two stored addresses differ in the
		// zone only) it resolves like Find.
		got = ""
		if p, ok = r.n.Clients.FindLoose(ip, id); ok {
			got = p.Name
		}
		if got != want {
			return kernel.Violationf("find-loose-mismatch", "FindLoose(%s, %q) resolves to %q, reference model says %q\nregistry:\n%s", ip, id, got, want, r.dump())
		}
	}
	return nil
}

func svcNames(setts *filtering.Settings) []string {
	out := []string{}
	for _, s := range setts.ServicesRules {
		out = append(out, s.Name)
	}
	sort.Strings(out)
	return out
}

// settingsText is what the system makes of a request from addr with cid.
func (r *runner) settingsText(cid string, addr netip.Addr) string {
	setts := r.n.Filter.Settings()
	r.n.Filter.ApplyAdditionalFiltering(addr, cid, setts)
	return fmt.Sprintf("client=%q filt=%v sb=%v par=%v ss=%v svc=%v", setts.ClientName, setts.FilteringEnabled, setts.SafeBrowsingEnabled, setts.ParentalEnabled, setts.SafeSearchEnabled, svcNames(setts))
}

// text is the reference's effective settings in the form of settingsText.
func (e effective) text() string {
	ws := append([]string{}, e.services...)
	sort.Strings(ws)
	return fmt.Sprintf("client=%q filt=%v sb=%v par=%v ss=%v svc=%v", e.client, e.filt, e.sb, e.par, e.ss, ws)
}

func (r *runner) checkSettings(cid string, addr netip.Addr) error {
	got, exp := r.settingsText(cid, addr), r.m.effective(cid, addr).text()
	if got != exp {
		name, how := r.m.attribute(cid, addr)
		return kernel.Violationf("settings-mismatch", "request from %s clientid=%q: effective settings %s; reference model (attributed to %q by %s): %s\nregistry:\n%s", addr, cid, got, name, how, exp, r.dump())
	}
	name, how := r.m.attribute(cid, addr)
	now := time.Now()
	globalActive := len(r.m.sc.GlobalServices) > 0 && !r.m.sc.GlobalPause.in(now)
	if r.m.sc.GlobalPause.in(now) {
		r.c.Probe("query_in_global_pause")
	}
	if c := r.m.clients[name]; c != nil && c.OwnServices {
		switch {
		case c.Pause.in(now) && globalActive:
			r.c.Probe("query_in_own_pause_global_list_active")
		case c.Pause.in(now):
			r.c.Probe("query_in_own_pause")
		case c.Pause != nil:
			r.c.Probe("query_outside_own_pause")
		}
	}
	if how != "" {
		r.c.Probe("attributed_by_" + how)
	} else {
		r.c.Probe("attributed_to_nobody")
	}
	return nil
}

func (r *runner) apply(op Op) error {
	ctx := context.Background()
	m := r.m
	switch op.Kind {
	case "add":
		p, err := toPersistent(op.Spec)
		if err != nil {
			return err
		}
		before := r.dump()
		err = r.n.Clients.Add(ctx, p)
		clash := m.clash(op.Spec, "")
		r.c.Eventf("add %s %v -> err=%v model_clash=%q", op.Spec.Name, op.Spec.IDs, err != nil, clash)
		if clash != "" {
			r.c.Probe("clash_rejected")
			if err == nil {
				return kernel.Violationf("clash-accepted", "Add(%s %v) succeeded although it shares %s\nregistry before:\n%s", op.Spec.Name, op.Spec.IDs, clash, before)
			}
			if after := r.dump(); after != before {
				return kernel.Violationf("rejected-op-changed-registry", "rejected Add(%s) changed the registry:\n%s\n->\n%s", op.Spec.Name, before, after)
			}
			return nil
		}
		if err != nil {
			return kernel.Violationf("valid-op-rejected", "Add(%s %v) failed: %v\nregistry:\n%s", op.Spec.Name, op.Spec.IDs, err, before)
		}
		m.clients[op.Spec.Name] = op.Spec
		r.c.Probe("client_added")
	case "update":
		p, err := toPersistent(op.Spec)
		if err != nil {
			return err
		}
		before := r.dump()
		err = r.n.Clients.Update(ctx, op.Name, p)
		_, exists := m.clients[op.Name]
		clash := ""
		if exists {
			clash = m.clash(op.Spec, op.Name)
		}
		r.c.Eventf("update %s -> %s %v err=%v exists=%v clash=%q", op.Name, op.Spec.Name, op.Spec.IDs, err != nil, exists, clash)
		if !exists || clash != "" {
			if clash != "" {
				r.c.Probe("clash_rejected")
			}
			if err == nil {
				return kernel.Violationf("clash-accepted", "Update(%s -> %s %v) succeeded (target exists=%v, shares %s)\nregistry before:\n%s", op.Name, op.Spec.Name, op.Spec.IDs, exists, clash, before)
			}
			if after := r.dump(); after != before {
				return kernel.Violationf("rejected-op-changed-registry", "rejected Update(%s) changed the registry:\n%s\n->\n%s", op.Name, before, after)
			}
			return nil
		}
		if err != nil {
			return kernel.Violationf("valid-op-rejected", "Update(%s -> %s %v) failed: %v\nregistry:\n%s", op.Name, op.Spec.Name, op.Spec.IDs, err, before)
		}
		delete(m.clients, op.Name)
		m.clients[op.Spec.Name] = op.Spec
		r.c.Probe("client_updated")
		if op.Name != op.Spec.Name {
			r.c.Probe("client_renamed")
		}
	case "remove":
		ok := r.n.Clients.RemoveByName(ctx, op.Name)
		_, exists := m.clients[op.Name]
		r.c.Eventf("remove %s -> %v", op.Name, ok)
		if ok != exists {
			return kernel.Violationf("remove-mismatch", "RemoveByName(%q) = %v, model says the client exists=%v", op.Name, ok, exists)
		}
		delete(m.clients, op.Name)
		if ok {
			r.c.Probe("client_removed")
		}
	case "par":
		return r.par(op)
	case "restart":
		return r.restart()
	case "lease":
		mac, _ := net.ParseMAC(op.MAC)
		l := lease{mac: mac}
		if op.TTLs > 0 {
			l.expiry = time.Now().Add(time.Duration(op.TTLs) * time.Second)
		}
		m.dhcp.leases[netip.MustParseAddr(op.IP)] = l
		r.c.Fault("dhcp_lease_change")
	case "unlease":
		delete(m.dhcp.leases, netip.MustParseAddr(op.IP))
		r.c.Fault("dhcp_lease_change")
	case "advance":
		d := time.Duration(op.Secs) * time.Second
		var pending int
		for ip := range m.dhcp.leases {
			if _, ok := m.dhcp.live(ip); ok {
				pending++
			}
		}
		time.Sleep(d)
		r.c.SimTime += d
		for ip := range m.dhcp.leases {
			if _, ok := m.dhcp.live(ip); ok {
				pending--
			}
		}
		if pending > 0 {
			r.c.Fault("dhcp_lease_expired")
		}
	case "lookup":
		if strings.HasPrefix(op.ID, "name:") {
			return nil // covered by checkRegistry
		}
		return r.checkFind(op.ID)
	case "query":
		addr := netip.MustParseAddr(op.IP)
		if err := r.checkSettings(op.CID, addr); err != nil {
			return err
		}
		return r.endToEnd(op.CID, addr)
	}
	return nil
}

func describe(op *Op) string {
	switch op.Kind {
	case "add":
		return fmt.Sprintf("add %s %v", op.Spec.Name, op.Spec.IDs)
	case "update":
		return fmt.Sprintf("update %s -> %s %v", op.Name, op.Spec.Name, op.Spec.IDs)
	default:
		return "remove " + op.Name
	}
}

func answer(accepted bool) string {
	if accepted {
		return "accepted"
	}
	return "rejected"
}

// lookText describes a lookup of a concurrent phase.
func lookText(lk *Look) string {
	switch lk.Kind {
	case "settings":
		return fmt.Sprintf("settings(%s cid=%q)", lk.ID, lk.CID)
	case "loose":
		return fmt.Sprintf("FindLoose(%s)", lk.ID)
	default:
		return fmt.Sprintf("Find(%s)", lk.ID)
	}
}

// lookSystem performs the lookup against the system.
func (r *runner) lookSystem(lk *Look) (string, error) {
	switch lk.Kind {
	case "find":
		if p, ok := r.n.Clients.Find(lk.ID); ok {
			return p.Name, nil
		}
		return "", nil
	case "loose":
		if p, ok := r.n.Clients.FindLoose(netip.MustParseAddr(lk.ID), lk.ID); ok {
			return p.Name, nil
		}
		return "", nil
	case "settings":
		return r.settingsText(lk.CID, netip.MustParseAddr(lk.ID)), nil
	}
	return "", fmt.Errorf("harness: lookup kind %q", lk.Kind)
}

// lookModel is the reference's answer to the lookup in the registry state the
// model is in.
func (r *runner) lookModel(lk *Look) string {
	switch lk.Kind {
	case "settings":
		return r.m.effective(lk.CID, netip.MustParseAddr(lk.ID)).text()
	case "loose":
		name, _ := r.m.attribute("", netip.MustParseAddr(lk.ID))
		return name
	default:
		if ip, err := netip.ParseAddr(lk.ID); err == nil {
			name, _ := r.m.attribute("", ip)
			return name
		}
		return r.m.owner(lk.ID)
	}
}

// par issues the registry operations of op at the same time, and with them
// the request-side lookups of op.Look: all of them run as tasks of the seeded
// cooperative scheduler, interleaved at the lock boundaries of the real
// storage (and where the simulated DHCP server is asked).  The statement
// speaks of sequences of operations: whatever the interleaving, what every
// operation was answered (accepted / rejected) and the registry afterwards
// (the dump and every lookup of checkRegistry) must be those of ONE of the
// serial orders of the operations according to the reference model, and every
// overlapped lookup must have been answered as the reference answers it in one
// of the registry states that this serial order passes through (before the
// first, between two, or after the last operation: "every identifier resolves
// to the client that currently owns it", a request is judged by the registry
// before or after an operation, never by a mixture).  The model goes on from
// the order that matched.
func (r *runner) par(op Op) error {
	ctx := context.Background()
	k := len(op.Par)
	if k < 1 || k > 3 {
		return fmt.Errorf("harness: par with %d operations", k)
	}
	ps := make([]*client.Persistent, k)
	var what, tnames []string
	for i := range op.Par {
		sub := &op.Par[i]
		if sub.Spec != nil {
			p, err := toPersistent(sub.Spec)
			if err != nil {
				return err
			}
			ps[i] = p
		}
		what = append(what, describe(sub))
		tnames = append(tnames, sub.Kind)
	}
	before := r.dump()
	acc := make([]bool, k)
	errs := make([]error, k)
	fns := make([]func(), k)
	for i := range op.Par {
		sub := &op.Par[i]
		switch sub.Kind {
		case "add":
			fns[i] = func() { errs[i] = r.n.Clients.Add(ctx, ps[i]); acc[i] = errs[i] == nil }
		case "update":
			fns[i] = func() { errs[i] = r.n.Clients.Update(ctx, sub.Name, ps[i]); acc[i] = errs[i] == nil }
		case "remove":
			fns[i] = func() { acc[i] = r.n.Clients.RemoveByName(ctx, sub.Name) }
		default:
			return fmt.Errorf("harness: par operation %q", sub.Kind)
		}
	}
	nl := len(op.Look)
	got := make([]string, nl)
	lerrs := make([]error, nl)
	for j := range op.Look {
		lk := &op.Look[j]
		what = append(what, lookText(lk))
		tnames = append(tnames, lk.Kind)
		fns = append(fns, func() { got[j], lerrs[j] = r.lookSystem(lk) })
	}
	asks0 := r.m.dhcp.parAsks
	res := sched.Run(op.Seed, op.Pct, tnames, fns)
	r.c.Fault("concurrent_registry_ops")
	if nl > 0 {
		r.c.Fault("concurrent_lookups")
	}
	r.c.Probes["sched_steps"] += res.Steps
	r.c.Probes["sched_switches"] += res.Switches
	if res.Deadlock != "" {
		r.abandon = true
		return kernel.Violationf("deadlock: "+res.Deadlock, "concurrent %s, schedule seed %d: every task waits for a lock:\n%s", strings.Join(what, " || "), op.Seed, res.Detail)
	}
	kernel.Wait()
	for _, err := range lerrs {
		if err != nil {
			return err
		}
	}
	r.c.Probes["par_dhcp_asked"] += r.m.dhcp.parAsks - asks0

	// The serial orders according to the reference model.
	base := r.m.clients
	touched := map[string]int{}
	for i := range op.Par {
		sub := &op.Par[i]
		if _, ok := base[sub.Name]; ok && sub.Kind != "add" {
			touched[sub.Name]++
		}
	}
	for _, cnt := range touched {
		if cnt > 1 {
			r.c.Probe("par_same_client")
			break
		}
	}
	var answers []string
	for i := range acc {
		answers = append(answers, answer(acc[i]))
	}
	for j := range got {
		answers = append(answers, fmt.Sprintf("%q", got[j]))
	}
	var tried []string
	outcomes := map[string]bool{}
	matched, registryMatched := -1, false
	var matchedClients map[string]*Spec
	lookDiffer := make([]bool, nl)
	for oi, ord := range orders(k) {
		r.m.clients = cloneClients(base)
		want := make([]bool, k)
		// states[j]: the reference's answers to lookup j in the states this
		// order passes through.
		states := make([][]string, nl)
		snap := func() {
			for j := range op.Look {
				a := r.lookModel(&op.Look[j])
				if len(states[j]) > 0 && states[j][0] != a {
					lookDiffer[j] = true
				}
				states[j] = append(states[j], a)
			}
		}
		snap()
		for _, i := range ord {
			want[i] = r.m.serial(&op.Par[i])
			snap()
		}
		outcomes[fmt.Sprint(want)+r.modelDump()] = true
		if matched >= 0 {
			continue
		}
		why := ""
		for i := range want {
			if want[i] != acc[i] {
				why = fmt.Sprintf("operation %d (%s) would be %s, it was %s", i, what[i], answer(want[i]), answer(acc[i]))
				break
			}
		}
		if why == "" {
			if err := r.checkRegistry(); err != nil {
				v, ok := err.(*kernel.Violation)
				if !ok {
					r.m.clients = base
					return err
				}
				why = v.Class + ": " + strings.SplitN(v.Msg, "\n", 2)[0]
			}
		}
		if why == "" {
			registryMatched = true
			for j := range got {
				if !contains(states[j], got[j]) {
					why = fmt.Sprintf("operations and registry fit, but %s was answered %q; in the states of this order the reference answers %q", what[k+j], got[j], states[j])
					break
				}
			}
		}
		if why == "" {
			matched, matchedClients = oi, r.m.clients
			continue
		}
		tried = append(tried, fmt.Sprintf("  order %v: %s", ord, why))
	}
	if len(outcomes) > 1 {
		r.c.Probe("par_orders_differ")
	}
	r.c.Eventf("par %s -> %s matched_order=%d steps=%d", strings.Join(what, " || "), strings.Join(answers, ","), matched, res.Steps)
	if matched < 0 {
		r.m.clients = base
		class := "concurrent-ops-no-serial-order"
		if registryMatched {
			// The registry operations alone are serialisable; a lookup saw
			// something that no state of such an order shows.
			class = "concurrent-lookup-no-serial-state"
		}
		return kernel.Violationf(class, "concurrent %s (schedule seed %d, preemption %d%%) were answered %s; the answers and the registry afterwards are those of no serial order of these operations with every lookup answered from one of its states:\n%s\nregistry before:\n%s\nregistry after:\n%s",
			strings.Join(what, " || "), op.Seed, op.Pct, strings.Join(answers, ","), strings.Join(tried, "\n"), before, r.dump())
	}
	r.m.clients = matchedClients
	r.c.Probe("par_serializable")
	for i := range acc {
		if acc[i] {
			r.c.Probe("par_op_accepted")
		} else {
			r.c.Probe("par_op_rejected")
		}
	}
	for j := range op.Look {
		lk := &op.Look[j]
		r.c.Probe("par_lookup_" + lk.Kind)
		if lookDiffer[j] {
			r.c.Probe("par_lookup_states_differ")
		}
		if ip, err := netip.ParseAddr(lk.ID); err == nil {
			cid := lk.CID
			if lk.Kind != "settings" {
				cid = ""
			}
			r.m.clients = base
			_, how0 := r.m.attribute(cid, ip)
			r.m.clients = matchedClients
			_, how1 := r.m.attribute(cid, ip)
			if how0 == "mac" || how1 == "mac" {
				r.c.Probe("par_lookup_by_lease_mac")
				if how0 != how1 {
					r.c.Probe("par_lookup_lease_mac_step_changes")
				}
			}
		}
	}
	return nil
}

// effectiveAll is what the filtering module makes of a request from every
// source address of the universe, without and with every ClientID.
func (r *runner) effectiveAll() string {
	var b strings.Builder
	for _, ip := range srcIPs {
		addr := netip.MustParseAddr(ip)
		for _, cid := range append([]string{""}, cidIDs...) {
			setts := r.n.Filter.Settings()
			r.n.Filter.ApplyAdditionalFiltering(addr, cid, setts)
			fmt.Fprintf(&b, "%s cid=%q: client=%q filt=%v sb=%v par=%v ss=%v svc=%v\n", ip, cid, setts.ClientName, setts.FilteringEnabled, setts.SafeBrowsingEnabled, setts.ParentalEnabled, setts.SafeSearchEnabled, svcNames(setts))
		}
	}
	return b.String()
}

func firstDiff(a, b string) string {
	la, lb := strings.Split(a, "\n"), strings.Split(b, "\n")
	for i := 0; i < len(la) && i < len(lb); i++ {
		if la[i] != lb[i] {
			return fmt.Sprintf("before: %s\nafter:  %s", la[i], lb[i])
		}
	}
	return fmt.Sprintf("%d lines before, %d after", len(la), len(lb))
}

// restart stops the node and starts a new one whose persistent clients are
// those that the system itself wrote: the real configuration writer (home's
// forConfig inside configuration.write) puts the registry into the
// configuration file, the real parseConfig reads the file back, and the
// clients are converted the way the clients container does at start.  The
// simulated clock does not move, the DHCP peer keeps its leases: the registry,
// every lookup and the effective settings of every source must be what they
// were (and, checked after the operation as after any other, what the
// reference model says).
func (r *runner) restart() error {
	ctx := context.Background()
	beforeReg, beforeEff, before := r.dump(), r.effectiveAll(), r.snapshot()
	if err := home.VerifClientsWriteConfig(r.cfg.Dir, r.n.Clients); err != nil {
		return fmt.Errorf("harness: writing the configuration: %w", err)
	}
	r.n.Close()
	r.n = nil
	ps, err := home.VerifClientsReloadFromConfig(ctx, slog.New(slog.DiscardHandler))
	if err != nil {
		if strings.Contains(err.Error(), "init persistent client") {
			return kernel.Violationf("restart-reload-failed", "the persistent clients that the configuration writer stored are refused at start: %v\nregistry before:\n%s", err, beforeReg)
		}
		return fmt.Errorf("harness: reloading the configuration: %w", err)
	}
	cfg := *r.cfg
	cfg.InitialClients = ps
	n, err := dnsnode.New(&cfg)
	if err != nil {
		if strings.Contains(err.Error(), "client storage") {
			return kernel.Violationf("restart-reload-failed", "the persistent clients that the configuration writer stored are refused at start: %v\nregistry before:\n%s", err, beforeReg)
		}
		return err
	}
	r.n = n
	kernel.Wait()
	r.c.Fault("restart_reload_clients")
	r.c.Eventf("restart clients=%d", len(ps))
	if len(ps) > 0 {
		r.c.Probe("restart_with_clients")
	}
	for _, c := range r.m.clients {
		if c.OwnSettings != c.OwnServices {
			r.c.Probe("restart_with_mixed_opt_outs")
			break
		}
	}
	after := r.snapshot()
	afterReg := r.dump()
	// 1. The same clients.
	if got, want := strings.Join(snapNames(after), ","), strings.Join(snapNames(before), ","); got != want {
		return kernel.Violationf("restart-changed-registry", "after a restart (clients written to the configuration file and loaded from it) the registry holds the clients [%s], before it held [%s]\nregistry before:\n%s\nregistry after:\n%s", got, want, beforeReg, afterReg)
	}
	// 2. With the same identifiers.
	var affected []string
	for _, name := range snapNames(before) {
		b, a := before[name], after[name]
		if strings.Join(b.ids, " ") == strings.Join(a.ids, " ") {
			continue
		}
		class := "restart-gained-identifier"
		for _, id := range b.ids {
			if !contains(a.ids, id) {
				class = "restart-lost-identifier-" + strings.SplitN(id, ":", 2)[0]
				break
			}
		}
		v := kernel.Violationf(class, "after a restart (clients written to the configuration file and loaded from it) client %q has the identifiers %v, before it had %v\nregistry before:\n%s\nregistry after:\n%s", name, a.ids, b.ids, beforeReg, afterReg)
		if !r.c.Tolerate(v) {
			return v
		}
		affected = append(affected, name)
	}
	// 3. Applying the same settings to every source.
	if len(affected) == 0 {
		if afterEff := r.effectiveAll(); afterEff != beforeEff {
			return kernel.Violationf("restart-changed-effective-settings", "after a restart (clients written to the configuration file and loaded from it) the effective settings differ:\n%s\nregistry before:\n%s\nregistry after:\n%s", firstDiff(beforeEff, afterEff), beforeReg, afterReg)
		}
	}
	// 4. And showing the same settings.
	for _, name := range snapNames(before) {
		if b, a := before[name], after[name]; b.settings != a.settings {
			return kernel.Violationf("restart-changed-client-settings", "after a restart (clients written to the configuration file and loaded from it) client %q has the settings %s, before it had %s\nregistry before:\n%s\nregistry after:\n%s", name, a.settings, b.settings, beforeReg, afterReg)
		}
	}
	// A listed finding changed identifiers: the administrator enters the
	// client again as it was, and the history goes on.
	for _, name := range affected {
		p, err := toPersistent(r.m.clients[name])
		if err != nil {
			return err
		}
		if err = r.n.Clients.Update(ctx, name, p); err != nil {
			return fmt.Errorf("harness: re-entering client %q after a listed finding: %w", name, err)
		}
		r.c.Eventf("restart: client %s re-entered", name)
	}
	return nil
}

type clientSnap struct {
	// ids are the identifiers by kind ("ip:", "net:", "mac:", "cid:" + text).
	ids      []string
	settings string
}

// snapshot is the registry by client name: identifiers and shown settings.
func (r *runner) snapshot() map[string]clientSnap {
	out := map[string]clientSnap{}
	r.n.Clients.RangeByName(func(c *client.Persistent) bool {
		var ids []string
		for _, ip := range c.IPs {
			ids = append(ids, "ip:"+ip.String())
		}
		for _, n := range c.Subnets {
			ids = append(ids, "net:"+n.String())
		}
		for _, mac := range c.MACs {
			ids = append(ids, "mac:"+mac.String())
		}
		for _, cid := range c.ClientIDs {
			ids = append(ids, "cid:"+cid)
		}
		sort.Strings(ids)
		out[c.Name] = clientSnap{ids: ids, settings: fmt.Sprintf("own=%v/%v/%v/%v/%v svc=%v/%v pause=%s ignore_log=%v ignore_stats=%v", c.UseOwnSettings, c.FilteringEnabled, c.SafeBrowsingEnabled, c.ParentalEnabled, c.SafeSearchConf.Enabled, c.UseOwnBlockedServices, c.BlockedServices.IDs, schedText(c.BlockedServices.Schedule), c.IgnoreQueryLog, c.IgnoreStatistics)}
		return true
	})
	return out
}

func snapNames(m map[string]clientSnap) []string {
	var ns []string
	for n := range m {
		ns = append(ns, n)
	}
	sort.Strings(ns)
	return ns
}

func contains(ids []string, id string) bool {
	for _, x := range ids {
		if x == id {
			return true
		}
	}
	return false
}

// endToEnd sends a real DNS request for a name that a custom rule blocks: it
// must be blocked exactly when filtering is in effect for the attributed
// client.
func (r *runner) endToEnd(cid string, addr netip.Addr) error {
	q := &dnsnode.Query{Proto: "udp", Addr: netip.AddrPortFrom(addr, 4000), Name: "blocked.test", Qtype: dns.TypeA}
	if cid != "" {
		q.Proto, q.SNI = "tls", cid+".dns.example"
	}
	rep := r.n.Do(q)
	kernel.Wait()
	want := r.m.effective(cid, addr)
	if rep.Msg == nil {
		return kernel.Violationf("no-reply", "query from %s cid=%q got no reply: %v", addr, cid, rep.Err)
	}
	blocked := len(rep.Exchanges) == 0
	r.c.Eventf("query %s cid=%q -> blocked=%v want_filtering=%v", addr, cid, blocked, want.filt)
	if blocked != want.filt {
		name, how := r.m.attribute(cid, addr)
		return kernel.Violationf("attribution-e2e", "DNS request from %s clientid=%q for a rule-blocked name: blocked=%v, but filtering in effect for it is %v (attributed to %q by %s)\nregistry:\n%s", addr, cid, blocked, want.filt, name, how, r.dump())
	}
	r.c.Probe("e2e_query")
	return nil
}

// Run executes one scenario.
func Run(t *testing.T, scAny any, c *kernel.Ctx) error {
	sc := scAny.(*Scenario)
	dnsnode.InitProcess()
	sched.Init()
	dir, err := kernel.TempDir("c04")
	if err != nil {
		return err
	}
	defer os.RemoveAll(dir)
	return kernel.Bubble(t, func() error {
		gw, err := sc.GlobalPause.weekly()
		if err != nil {
			return err
		}
		dh := &simDHCP{leases: map[netip.Addr]lease{}}
		up := &env.Upstream{Addr: "sim-upstream:53", Answer: env.DefaultAnswer}
		cfg := &dnsnode.Config{Dir: dir, ListServer: env.NewListServer(), Upstream: up, UpTimeout: 2 * time.Second, ServerName: "dns.example", ClientDHCP: dh}
		cfg.Filtering = filtering.Config{BlockingMode: filtering.BlockingModeDefault, ProtectionEnabled: true, FilteringEnabled: sc.GlobalFiltering,
			SafeBrowsingEnabled: sc.GlobalSB, ParentalEnabled: sc.GlobalParental, UserRules: []string{"||blocked.test^"}, FiltersUpdateIntervalHours: 24,
			BlockedServices: &filtering.BlockedServices{IDs: sc.GlobalServices, Schedule: gw}}
		cfg.Filtering.SafeSearchConf.Enabled = sc.GlobalSS
		cfg.SafeBrowsing, cfg.Parental = neverBlock{}, neverBlock{}
		cfg.DNS = dnsforward.Config{}
		n, err := dnsnode.New(cfg)
		if err != nil {
			return err
		}
		r := &runner{c: c, n: n, cfg: cfg, m: &model{clients: map[string]*Spec{}, sc: sc, dhcp: dh}}
		defer func() {
			if r.n != nil && !r.abandon {
				r.n.Close()
			}
		}()
		kernel.Wait()
		for i, op := range sc.Ops {
			c.Eventf("op %d %s", i, op.Kind)
			err := r.apply(op)
			if err == nil {
				err = r.checkRegistry()
			}
			if err != nil {
				if v, ok := err.(*kernel.Violation); ok {
					v.Msg = fmt.Sprintf("op %d (%s): %s", i, op.Kind, v.Msg)
				}
				return err
			}
			c.Step()
		}
		return nil
	})
}

type neverBlock struct{}

func (neverBlock) Check(string) (bool, error) { return false, nil }

// Prop is the registration.
var Prop = &kernel.Property{
	ID:    "C04",
	Level: "exploration",
	Rule: "seeded histories (rapid) of add / update (rename, swap and drop identifiers) / remove over 5 names with identifiers from small pools (IPs, nested CIDRs /0../31 v4 and v6, MACs of 6/8/20 bytes, ClientIDs) so that clashes are frequent, interleaved with DHCP lease set/remove, clock advances past lease expiry, lookups by every identifier, effective-settings probes and real DNS requests with and without ClientID; the global and every client's own blocked services carry a pause schedule (none, whole day, or a window whose edges the clock advances of the case cross), and the effective blocked services are compared at whatever the simulated clock shows; after every op the whole registry and every identifier of the universe are compared with the map model; " +
		"op 'par': one to three registry operations (add / update / remove, mostly on one existing client, half of the specs identifying one device — a source address attributed to that client, preferably through its lease's MAC — by another of its identifiers: address, network around it, lease MAC, ClientID) and up to three request-side lookups (Find by any identifier, FindLoose, effective settings of (address, ClientID), mostly for that device) run as concurrent tasks under the seeded cooperative scheduler (interleaved at lock boundaries and where the simulated DHCP server is asked for a MAC); the operations' answers plus the registry afterwards must equal those of one serial order of the reference model, and every lookup's answer must be the reference's answer in one of the registry states that order passes through; the model continues from that order; op 'restart': the real configuration writer stores the registry (home's forConfig -> YAML file), the real parseConfig reads it back, a new node starts from those clients, and the effective settings of every (source, ClientID) and the registry must be unchanged; " +
		"non-trivial = at least one accepted add/update, one rejected clash and one attribution by something other than 'nobody'; distinct = distinct scenario digests",
	Gen: Gen,
	New: func() any { return &Scenario{} },
	Run: Run,
	NonTrivial: func(_ any, c *kernel.Ctx) bool {
		return c.Probes["client_added"] > 0 && c.Probes["clash_rejected"] > 0 && (c.Probes["attributed_by_clientid"]+c.Probes["attributed_by_ip"]+c.Probes["attributed_by_cidr"]+c.Probes["attributed_by_mac"] > 0)
	},
	Real:        []string{"internal/client (Storage, index, Persistent)", "internal/filtering (Settings, ApplyAdditionalFiltering, blocked services)", "internal/dnsforward request pipeline (end-to-end attribution)", "dnsproxy request path"},
	Stub:        []string{"DHCP lease table (seeded, leases expire on the simulated clock)", "upstream resolver", "client sockets", "safe-browsing / parental checkers (never block)"},
	Assumptions: []string{"pause schedules are in UTC with the same range every weekday (zones, weekdays and DST are C18's subject); the reference reads hour/minute/second of the instant in UTC", "clients are built with Persistent.SetIDs from identifier strings, as the admin API does", "two clients may hold overlapping (non-identical) CIDRs; identical CIDRs clash"},
	FaultKinds:  []string{"dhcp_lease_change", "dhcp_lease_expired", "concurrent_registry_ops", "concurrent_lookups", "restart_reload_clients"},
	ProbeNames: []string{"client_added", "client_updated", "client_renamed", "client_removed", "clash_rejected", "attributed_by_clientid", "attributed_by_ip", "attributed_by_cidr", "attributed_by_mac", "attributed_to_nobody", "e2e_query",
		"query_in_global_pause", "query_in_own_pause", "query_in_own_pause_global_list_active", "query_outside_own_pause",
		"par_same_client", "par_orders_differ", "par_serializable", "par_op_accepted", "par_op_rejected", "sched_steps", "sched_switches",
		"par_lookup_find", "par_lookup_loose", "par_lookup_settings", "par_lookup_states_differ", "par_lookup_by_lease_mac", "par_lookup_lease_mac_step_changes", "par_dhcp_asked", "restart_with_clients", "restart_with_mixed_opt_outs"},
}
