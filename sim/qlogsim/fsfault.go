package qlogsim

import (
	"fmt"
	"os"

	"github.com/AdguardTeam/AdGuardHome/internal/querylog"
)

// Storage faults of the query log's data directory.  The process under test
// runs as root, so permission bits would not stop it; the faults are therefore
// made of things an operator (or a failing volume) can really do to the
// directory.  Every fault makes the memory-to-file flush fail with an I/O
// error until it is healed; nothing in the query log itself is touched.
const (
	// FSAway: the data directory is unreachable (the volume went away); it
	// comes back with everything that was in it.  Open fails with ENOENT.
	FSAway = "away"
	// FSWiped: the data directory is deleted with the log files; healing
	// creates an empty one.  Open fails with ENOENT.
	FSWiped = "wiped"
	// FSIsDir: the name of the current log file is taken by a directory (the
	// file itself is set aside and comes back).  Open fails with EISDIR.
	FSIsDir = "isdir"
	// FSFull: the name of the current log file leads to a device on which
	// every write fails with ENOSPC (the file itself is set aside and comes
	// back).  Open succeeds, Write fails.
	FSFull = "full"
)

// FSFaultModes lists the storage faults.
var FSFaultModes = []string{FSAway, FSWiped, FSIsDir, FSFull}

func (n *Node) awayDir() string { return n.Dir + ".away" }
func (n *Node) aside() string   { return n.LogFile(false) + ".aside" }

// BreakFS injects the storage fault mode.
func (n *Node) BreakFS(mode string) (err error) {
	defer func() {
		if err != nil {
			err = fmt.Errorf("harness: injecting storage fault %q: %w", mode, err)
		}
	}()
	switch mode {
	case FSAway:
		return os.Rename(n.Dir, n.awayDir())
	case FSWiped:
		return os.RemoveAll(n.Dir)
	case FSIsDir, FSFull:
		cur := n.LogFile(false)
		if err = os.Rename(cur, n.aside()); err != nil && !os.IsNotExist(err) {
			return err
		}
		if mode == FSIsDir {
			return os.Mkdir(cur, 0o755)
		}
		return os.Symlink("/dev/full", cur)
	}
	return fmt.Errorf("unknown mode")
}

// HealFS removes the storage fault mode injected by BreakFS.
func (n *Node) HealFS(mode string) (err error) {
	defer func() {
		if err != nil {
			err = fmt.Errorf("harness: healing storage fault %q: %w", mode, err)
		}
	}()
	switch mode {
	case FSAway:
		return os.Rename(n.awayDir(), n.Dir)
	case FSWiped:
		return os.MkdirAll(n.Dir, 0o755)
	case FSIsDir, FSFull:
		cur := n.LogFile(false)
		if err = os.Remove(cur); err != nil && !os.IsNotExist(err) {
			return err
		}
		if err = os.Rename(n.aside(), cur); err != nil && !os.IsNotExist(err) {
			return err
		}
		return nil
	}
	return fmt.Errorf("unknown mode")
}

// CleanupFS removes what an unhealed fault left outside Dir.
func (n *Node) CleanupFS() { _ = os.RemoveAll(n.awayDir()) }

// MemLen returns the number of entries the query log holds in memory.
func (n *Node) MemLen() int { return querylog.VerifMemLen(n.QL) }
