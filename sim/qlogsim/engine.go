// Package qlogsim is engine E2 "qlogstore": the real query log
// (internal/querylog) on a tmpfs directory under the fake clock of a synctest
// bubble, with a seeded client table behind FindClient, entries pushed through
// the same ShouldLog + Add sequence dnsforward uses, the hourly rotation loop
// driven through its real body, the HTTP handlers on a private mux, clean
// restart and crash.  Properties C07 and C20 are decided on it.
package qlogsim

import (
	"bytes"
	"context"
	"encoding/json"
	"fmt"
	"log/slog"
	"net"
	"net/http"
	"net/netip"
	"net/url"
	"os"
	"path/filepath"
	"strings"
	"syscall"
	"time"

	"github.com/AdguardTeam/AdGuardHome/internal/aghnet"
	"github.com/AdguardTeam/AdGuardHome/internal/filtering"
	"github.com/AdguardTeam/AdGuardHome/internal/filtering/rulelist"
	"github.com/AdguardTeam/AdGuardHome/internal/querylog"
	"github.com/AdguardTeam/AdGuardHome/verifsim/env"
	"github.com/AdguardTeam/AdGuardHome/verifsim/kernel"
	"github.com/AdguardTeam/urlfilter/rules"
	"github.com/miekg/dns"
)

// RR is one generated resource record of an answer.
type RR struct {
	T   string `json:"t"`
	V   string `json:"v"`
	TTL uint32 `json:"ttl,omitempty"`
}

// Rule is one generated applied rule of a filtering result.
type Rule struct {
	Text string `json:"x,omitempty"`
	List int64  `json:"l,omitempty"`
	IP   string `json:"ip,omitempty"`
}

// Rec describes one query to record.
type Rec struct {
	// GapNs is the simulated time that passes before the query is recorded
	// (>= 1: entries are recorded at strictly increasing instants).
	GapNs int64 `json:"gap"`

	Host   string `json:"h"`
	QType  uint16 `json:"qt"`
	IP     string `json:"ip"`
	CID    string `json:"cid,omitempty"`
	Proto  string `json:"p,omitempty"`
	Ups    string `json:"up,omitempty"`
	Cached bool   `json:"ca,omitempty"`
	AD     bool   `json:"ad,omitempty"`
	ECS    string `json:"ecs,omitempty"`

	Reason int    `json:"r,omitempty"`
	Rules  []Rule `json:"ru,omitempty"`
	Svc    string `json:"svc,omitempty"`
	// Rewrite selects the rewrite payload: 0 none, 1 canonical name, 2 legacy
	// address list, 3 $dnsrewrite with A/AAAA values, 4 $dnsrewrite with an
	// rcode only, 5 $dnsrewrite with MX/SVCB/TXT values, 6 empty payload object.
	Rewrite int `json:"rw,omitempty"`

	// NoAns: no answer message at all (e.g. a dropped request).
	NoAns bool `json:"noans,omitempty"`
	Rcode int  `json:"rc,omitempty"`
	Ans   []RR `json:"ans,omitempty"`
	Orig  []RR `json:"orig,omitempty"`
	// TxtPad adds a TXT record of that many bytes to the answer; UpsPad pads
	// the upstream address (the large-file profile of C20 uses both).
	TxtPad int `json:"txtpad,omitempty"`
	UpsPad int `json:"upspad,omitempty"`

	ElapsedUs int64 `json:"el,omitempty"`
}

// Conf is the part of the query-log configuration the engine varies.
type Conf struct {
	MemSize   uint
	Interval  time.Duration
	Enabled   bool
	Anonymize bool
	Ignored   []string
}

// FileObs is what the engine sees of one log file.
type FileObs struct {
	Exists bool
	Size   int64
	Ino    uint64
}

// ClientRow is one row of the seeded client table behind FindClient.
type ClientRow struct {
	ID     string
	Name   string
	Ignore bool
}

// Node is one running query log.
type Node struct {
	// NoWait makes Record return without waiting for the flush goroutine
	// that Add may have started (the next operation then overlaps it).
	NoWait bool

	Dir      string
	QL       querylog.QueryLog
	Mux      *env.Mux
	Anon     *aghnet.IPMut
	Clients  []*ClientRow
	Logger   *slog.Logger
	NextTick time.Time

	// Persisted is the configuration as the owner of the query log would have
	// written it to its configuration file at the last ConfigModified call.
	Persisted *querylog.Config
	Modified  int
}

// RotationCheckPeriod is the period of the harness-driven rotation loop.  It is
// the documented period of the upstream loop ("rotationCheckIvl"; issue 3823);
// the loop itself is immortal and therefore not started (see DESIGN §1).
const RotationCheckPeriod = time.Hour

// FindClient is the FindClient stub: the first id that has a row wins.
func (n *Node) FindClient(ids []string) (c *querylog.Client, err error) {
	for _, id := range ids {
		for _, row := range n.Clients {
			if row.ID == id {
				return &querylog.Client{Name: row.Name, IgnoreQueryLog: row.Ignore}, nil
			}
		}
	}
	return nil, nil
}

// LookupClient is the reference lookup used by oracles: same table, same
// priority (ClientID first, then address), as configured for the stub.
func (n *Node) LookupClient(cid, ip string) *ClientRow {
	for _, id := range []string{cid, ip} {
		if id == "" {
			continue
		}
		for _, row := range n.Clients {
			if row.ID == id {
				return row
			}
		}
	}
	return nil
}

// LogFile returns the path of the current (rot=false) or rotated log file.
func (n *Node) LogFile(rot bool) string {
	p := filepath.Join(n.Dir, "querylog.json")
	if rot {
		p += ".1"
	}
	return p
}

// Observe stats one of the two log files.
func (n *Node) Observe(rot bool) FileObs {
	fi, err := os.Stat(n.LogFile(rot))
	if err != nil {
		return FileObs{}
	}
	o := FileObs{Exists: true, Size: fi.Size()}
	if st, ok := fi.Sys().(*syscall.Stat_t); ok {
		o.Ino = st.Ino
	}
	return o
}

// Open creates the query log from conf the way home does (New, handlers; the
// rotation loop is replaced by Tick) and performs the check that the real loop
// runs immediately when it starts.
func (n *Node) Open(conf Conf) error {
	ign, err := aghnet.NewIgnoreEngine(conf.Ignored)
	if err != nil {
		return fmt.Errorf("harness: ignore engine: %w", err)
	}
	n.Mux = env.NewMux()
	n.Anon = aghnet.NewIPMut(nil)
	if conf.Anonymize {
		n.Anon.Store(querylog.AnonymizeIP)
	}
	if n.Logger == nil {
		n.Logger = slog.New(slog.DiscardHandler)
	}
	c := querylog.Config{
		Logger:            n.Logger,
		Ignored:           ign,
		Anonymizer:        n.Anon,
		ConfigModified:    n.configModified,
		HTTPRegister:      n.Mux.Register,
		FindClient:        n.FindClient,
		BaseDir:           n.Dir,
		RotationIvl:       conf.Interval,
		MemSize:           conf.MemSize,
		Enabled:           conf.Enabled,
		FileEnabled:       true,
		AnonymizeClientIP: conf.Anonymize,
	}
	ql, err := querylog.New(c)
	if err != nil {
		return fmt.Errorf("harness: querylog.New: %w", err)
	}
	n.QL = ql
	n.Persisted = &querylog.Config{}
	ql.WriteDiskConfig(n.Persisted)
	querylog.VerifInitWeb(ql)
	n.NextTick = time.Now()
	return nil
}

func (n *Node) configModified() {
	n.Modified++
	c := &querylog.Config{}
	n.QL.WriteDiskConfig(c)
	n.Persisted = c
}

// PersistedConf converts the persisted configuration back to a Conf (MemSize
// may be overridden by the caller: it is only read at start).
func (n *Node) PersistedConf() Conf {
	p := n.Persisted
	return Conf{
		MemSize:   p.MemSize,
		Interval:  p.RotationIvl,
		Enabled:   p.Enabled,
		Anonymize: p.AnonymizeClientIP,
		Ignored:   p.Ignored.Values(),
	}
}

// Tick runs the real rotation check once, at the current instant.
func (n *Node) Tick() {
	querylog.VerifCheckAndRotate(context.Background(), n.QL)
	n.NextTick = time.Now().Add(RotationCheckPeriod)
}

// Flush runs the real memory-to-file flush.
func (n *Node) Flush() error { return querylog.VerifFlush(context.Background(), n.QL) }

// Shutdown is the clean stop (flushes).
func (n *Node) Shutdown() error { return n.QL.Shutdown(context.Background()) }

// Unmap returns the canonical text form of an address.
func Unmap(s string) string {
	a, err := netip.ParseAddr(s)
	if err != nil {
		return s
	}
	return a.Unmap().String()
}

// BuildParams turns rec into the AddParams dnsforward would build.  ip is the
// (possibly anonymised) client address.
func BuildParams(rec *Rec, ip net.IP) (*querylog.AddParams, error) {
	q := &dns.Msg{}
	q.SetQuestion(dns.Fqdn(rec.Host), rec.QType)
	p := &querylog.AddParams{
		Question:          q,
		ClientID:          rec.CID,
		ClientIP:          ip,
		Upstream:          rec.Ups + strings.Repeat("u", rec.UpsPad),
		Elapsed:           time.Duration(rec.ElapsedUs) * time.Microsecond,
		Cached:            rec.Cached,
		AuthenticatedData: rec.AD,
	}
	cp, err := querylog.NewClientProto(rec.Proto)
	if err != nil {
		return nil, fmt.Errorf("harness: %w", err)
	}
	p.ClientProto = cp
	if rec.ECS != "" {
		_, ipn, perr := net.ParseCIDR(rec.ECS)
		if perr != nil {
			return nil, fmt.Errorf("harness: ecs: %w", perr)
		}
		p.ReqECS = ipn
	}
	if !rec.NoAns {
		a, aerr := BuildMsg(q, rec.Rcode, rec.Ans, rec.TxtPad, rec.AD)
		if aerr != nil {
			return nil, aerr
		}
		p.Answer = a
	}
	if len(rec.Orig) > 0 {
		o, oerr := BuildMsg(q, 0, rec.Orig, 0, false)
		if oerr != nil {
			return nil, oerr
		}
		p.OrigAnswer = o
	}
	p.Result = BuildResult(rec)
	return p, nil
}

// BuildMsg builds a response to q.
func BuildMsg(q *dns.Msg, rcode int, rrs []RR, txtPad int, ad bool) (*dns.Msg, error) {
	m := &dns.Msg{}
	m.SetRcode(q, rcode)
	m.AuthenticatedData = ad
	for _, r := range rrs {
		rr, err := MakeRR(q.Question[0].Name, r)
		if err != nil {
			return nil, err
		}
		m.Answer = append(m.Answer, rr)
	}
	if txtPad > 0 {
		t := &dns.TXT{Hdr: dns.RR_Header{Name: q.Question[0].Name, Rrtype: dns.TypeTXT, Class: dns.ClassINET, Ttl: 60}}
		for left := txtPad; left > 0; left -= 255 {
			k := min(left, 255)
			t.Txt = append(t.Txt, strings.Repeat("p", k))
		}
		m.Answer = append(m.Answer, t)
	}
	return m, nil
}

// MakeRR builds one resource record owned by name.
func MakeRR(name string, r RR) (dns.RR, error) {
	owner := name
	if !dns.IsFqdn(owner) {
		owner += "."
	}
	if _, ok := dns.IsDomainName(owner); !ok || strings.ContainsAny(owner, " \t;()\"") {
		owner = "owner.test."
	}
	rr, err := dns.NewRR(fmt.Sprintf("%s %d IN %s %s", owner, r.TTL, r.T, r.V))
	if err != nil || rr == nil {
		return nil, fmt.Errorf("harness: bad generated RR %+v: %v", r, err)
	}
	return rr, nil
}

// RRValue is the text form of the record data ("value" in the API), obtained
// from the record as it was recorded.
func RRValue(rr dns.RR) string {
	return strings.TrimPrefix(rr.String(), rr.Header().String())
}

// Consistent reasons of a filtering result (IsFiltered as the filtering module
// sets it: true exactly for the Filtered* reasons).
func isFilteredReason(r filtering.Reason) bool {
	switch r {
	case filtering.FilteredBlockList, filtering.FilteredSafeBrowsing, filtering.FilteredParental,
		filtering.FilteredInvalid, filtering.FilteredSafeSearch, filtering.FilteredBlockedService:
		return true
	}
	return false
}

// BuildResult builds the filtering result of rec.
func BuildResult(rec *Rec) *filtering.Result {
	res := &filtering.Result{
		Reason:      filtering.Reason(rec.Reason),
		ServiceName: rec.Svc,
	}
	res.IsFiltered = isFilteredReason(res.Reason)
	for _, r := range rec.Rules {
		rr := &filtering.ResultRule{Text: r.Text, FilterListID: rulelist.URLFilterID(r.List)}
		if r.IP != "" {
			rr.IP, _ = netip.ParseAddr(r.IP)
		}
		res.Rules = append(res.Rules, rr)
	}
	switch rec.Rewrite {
	case 1:
		res.CanonName = "canon.rewrite.example"
	case 2:
		res.IPList = []netip.Addr{netip.MustParseAddr("198.51.100.7"), netip.MustParseAddr("2001:db8::7")}
	case 3:
		res.DNSRewriteResult = &filtering.DNSRewriteResult{
			RCode: dns.RcodeSuccess,
			Response: filtering.DNSRewriteResultResponse{
				dns.TypeA:    []rules.RRValue{netip.MustParseAddr("198.51.100.8")},
				dns.TypeAAAA: []rules.RRValue{netip.MustParseAddr("2001:db8::8")},
			},
		}
	case 4:
		res.DNSRewriteResult = &filtering.DNSRewriteResult{RCode: dns.RcodeNameError}
	case 5:
		res.DNSRewriteResult = &filtering.DNSRewriteResult{
			RCode: dns.RcodeSuccess,
			Response: filtering.DNSRewriteResultResponse{
				dns.TypeMX:    []rules.RRValue{&rules.DNSMX{Exchange: "mail.example", Preference: 10}},
				dns.TypeTXT:   []rules.RRValue{"hello \"Rules\":[{\"Text\":\"x\"}] world"},
				dns.TypeHTTPS: []rules.RRValue{&rules.DNSSVCB{Params: map[string]string{"alpn": "h3"}, Target: "svc.example", Priority: 1}},
			},
		}
	case 6:
		res.DNSRewriteResult = &filtering.DNSRewriteResult{}
	}
	return res
}

// Anonymise is the reference anonymisation (last 16 bits of an IPv4 address,
// last 80 bits of an IPv6 address zeroed), written from the statement of C08.
func Anonymise(s string) string {
	a, err := netip.ParseAddr(s)
	if err != nil {
		return s
	}
	a = a.Unmap()
	b := a.AsSlice()
	if a.Is4() {
		b[2], b[3] = 0, 0
	} else {
		for i := 6; i < 16; i++ {
			b[i] = 0
		}
	}
	out, _ := netip.AddrFromSlice(b)
	return out.String()
}

// Record pushes rec through the sequence dnsforward runs for one query:
// anonymise the address, ShouldLog, Add; then waits for quiescence (the flush
// goroutine Add may have started).  It returns the instant the entry carries
// and the address it was recorded with; logged is false if ShouldLog said no.
func (n *Node) Record(rec *Rec) (ts time.Time, storedIP string, logged bool, err error) {
	a, perr := netip.ParseAddr(rec.IP)
	if perr != nil {
		return ts, "", false, fmt.Errorf("harness: client address %q: %w", rec.IP, perr)
	}
	ip := a.Unmap().AsSlice()
	n.Anon.Load()(ip)
	ipStr := net.IP(ip).String()
	ids := []string{ipStr}
	if rec.CID != "" {
		ids = []string{rec.CID, ipStr}
	}
	host := aghnet.NormalizeDomain(rec.Host)
	if !n.QL.ShouldLog(host, rec.QType, dns.ClassINET, ids) {
		return ts, ipStr, false, nil
	}
	p, berr := BuildParams(rec, ip)
	if berr != nil {
		return ts, ipStr, false, berr
	}
	ts = time.Now()
	n.QL.Add(p)
	if !n.NoWait {
		kernel.Wait()
	}
	return ts, ipStr, true, nil
}

// ---- the admin API -----------------------------------------------------------

// Ans is one answer record in the API's form.
type Ans struct {
	Type  string `json:"type"`
	Value string `json:"value"`
	TTL   uint32 `json:"ttl"`
}

// Entry is one entry of GET /control/querylog.
type Entry struct {
	Reason      string `json:"reason"`
	ElapsedMs   string `json:"elapsedMs"`
	Time        string `json:"time"`
	Client      string `json:"client"`
	ClientProto string `json:"client_proto"`
	Cached      bool   `json:"cached"`
	Upstream    string `json:"upstream"`
	Question    struct {
		Type    string `json:"type"`
		Class   string `json:"class"`
		Name    string `json:"name"`
		Unicode string `json:"unicode_name"`
	} `json:"question"`
	Rules []struct {
		ListID int64  `json:"filter_list_id"`
		Text   string `json:"text"`
	} `json:"rules"`
	ClientInfo  json.RawMessage `json:"client_info"`
	ClientID    string          `json:"client_id"`
	ECS         string          `json:"ecs"`
	Rule        *string         `json:"rule"`
	FilterID    *int64          `json:"filterId"`
	ServiceName string          `json:"service_name"`
	Status      *string         `json:"status"`
	DNSSEC      *bool           `json:"answer_dnssec"`
	Answer      []Ans           `json:"answer"`
	OrigAnswer  []Ans           `json:"original_answer"`

	// TS is Time parsed (nanoseconds since the Unix epoch).
	TS int64 `json:"-"`
}

// Resp is the body of GET /control/querylog.
type Resp struct {
	Data   []*Entry `json:"data"`
	Oldest string   `json:"oldest"`
}

// Get sends GET /control/querylog with the given parameters.  A panic of the
// handler is returned as *env.HandlerPanic in err.
func (n *Node) Get(params url.Values) (code int, r *Resp, body []byte, err error) {
	target := "/control/querylog"
	if len(params) > 0 {
		target += "?" + params.Encode()
	}
	code, body, err = n.Mux.Do(http.MethodGet, target, nil)
	if err != nil || code != http.StatusOK {
		return code, nil, body, err
	}
	r = &Resp{}
	if jerr := json.Unmarshal(body, r); jerr != nil {
		return code, nil, body, nil
	}
	for _, e := range r.Data {
		t, perr := time.Parse(time.RFC3339Nano, e.Time)
		if perr != nil {
			return code, nil, body, nil
		}
		e.TS = t.UnixNano()
	}
	return code, r, body, nil
}

// SplitLines is the independent forward split of a log file: every line
// without its terminating newline.  A trailing fragment without newline is
// returned as the last element with complete=false.
func SplitLines(b []byte) (lines []string, complete bool) {
	complete = true
	for len(b) > 0 {
		i := bytes.IndexByte(b, '\n')
		if i < 0 {
			lines = append(lines, string(b))
			return lines, false
		}
		lines = append(lines, string(b[:i]))
		b = b[i+1:]
	}
	return lines, complete
}

// LineTS extracts the timestamp of a stored line with the standard decoder.
func LineTS(line string) (int64, error) {
	var v struct {
		T time.Time `json:"T"`
	}
	if err := json.Unmarshal([]byte(line), &v); err != nil {
		return 0, err
	}
	return v.T.UnixNano(), nil
}
