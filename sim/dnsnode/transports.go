package dnsnode

import (
	"bytes"
	"context"
	"crypto/tls"
	"net"
	"net/netip"
	"time"

	"github.com/miekg/dns"
	"github.com/quic-go/quic-go"
)

// fakeConn is the client's TCP/TLS connection as the server sees it: it
// records what the server writes and whether it closed the connection.
type fakeConn struct {
	local, remote net.Addr
	buf           bytes.Buffer
	closed        bool
}

func (c *fakeConn) Read([]byte) (int, error)         { return 0, net.ErrClosed }
func (c *fakeConn) Write(b []byte) (int, error)      { return c.buf.Write(b) }
func (c *fakeConn) Close() error                     { c.closed = true; return nil }
func (c *fakeConn) LocalAddr() net.Addr              { return c.local }
func (c *fakeConn) RemoteAddr() net.Addr             { return c.remote }
func (c *fakeConn) SetDeadline(time.Time) error      { return nil }
func (c *fakeConn) SetReadDeadline(time.Time) error  { return nil }
func (c *fakeConn) SetWriteDeadline(time.Time) error { return nil }

// fakeTLSConn additionally exposes the negotiated server name, like *tls.Conn.
type fakeTLSConn struct {
	fakeConn
	serverName string
}

func (c *fakeTLSConn) ConnectionState() tls.ConnectionState {
	return tls.ConnectionState{ServerName: c.serverName, HandshakeComplete: true}
}

// fakeQUICConn implements the parts of quic.Connection the server touches.
type fakeQUICConn struct {
	quic.Connection
	serverName string
	local      net.Addr
	remote     net.Addr
	closedWith *uint64
}

func (c *fakeQUICConn) ConnectionState() quic.ConnectionState {
	return quic.ConnectionState{TLS: tls.ConnectionState{ServerName: c.serverName, HandshakeComplete: true}}
}

func (c *fakeQUICConn) CloseWithError(code quic.ApplicationErrorCode, _ string) error {
	v := uint64(code)
	c.closedWith = &v
	return nil
}
func (c *fakeQUICConn) LocalAddr() net.Addr      { return c.local }
func (c *fakeQUICConn) RemoteAddr() net.Addr     { return c.remote }
func (c *fakeQUICConn) Context() context.Context { return context.Background() }

// fakeQUICStream implements the parts of quic.Stream the server touches.
type fakeQUICStream struct {
	quic.Stream
	buf    bytes.Buffer
	closed bool
}

func (s *fakeQUICStream) Write(b []byte) (int, error)      { return s.buf.Write(b) }
func (s *fakeQUICStream) Close() error                     { s.closed = true; return nil }
func (s *fakeQUICStream) CancelRead(quic.StreamErrorCode)  {}
func (s *fakeQUICStream) CancelWrite(quic.StreamErrorCode) {}
func (s *fakeQUICStream) SetWriteDeadline(time.Time) error { return nil }
func (s *fakeQUICStream) SetDeadline(time.Time) error      { return nil }
func (s *fakeQUICStream) SetReadDeadline(time.Time) error  { return nil }
func (s *fakeQUICStream) StreamID() quic.StreamID          { return 0 }
func (s *fakeQUICStream) Context() context.Context         { return context.Background() }
func (s *fakeQUICStream) Read([]byte) (int, error)         { return 0, net.ErrClosed }

// fakeDNSCryptWriter implements dnscrypt.ResponseWriter.
type fakeDNSCryptWriter struct {
	local, remote net.Addr
	msgs          []*dns.Msg
}

func (w *fakeDNSCryptWriter) LocalAddr() net.Addr  { return w.local }
func (w *fakeDNSCryptWriter) RemoteAddr() net.Addr { return w.remote }
func (w *fakeDNSCryptWriter) WriteMsg(m *dns.Msg) error {
	w.msgs = append(w.msgs, m.Copy())
	return nil
}

func tcpAddr(ap netip.AddrPort) net.Addr { return net.TCPAddrFromAddrPort(ap) }
func udpAddr(ap netip.AddrPort) net.Addr { return net.UDPAddrFromAddrPort(ap) }
