// Package dnsnode assembles the real DNS side of AdGuard Home the way package
// home wires it — filtering.DNSFilter (+ its update loop), client.Storage,
// dnsforward.Server prepared with the real proxy — without any listener, and
// lets a simulated client push requests of all six transports through
// dnsproxy's request front door.  Upstream resolvers, the list server and the
// safe-browsing lookup service are simulated peers.
package dnsnode

import (
	"context"
	"encoding/base64"
	"fmt"
	"io"
	"log/slog"
	"net"
	"net/http"
	"net/http/httptest"
	"net/netip"
	"os"
	"path/filepath"
	"strconv"
	"sync"
	"sync/atomic"
	"time"

	"github.com/AdguardTeam/AdGuardHome/internal/aghnet"
	"github.com/AdguardTeam/AdGuardHome/internal/client"
	"github.com/AdguardTeam/AdGuardHome/internal/dnsforward"
	"github.com/AdguardTeam/AdGuardHome/internal/filtering"
	"github.com/AdguardTeam/AdGuardHome/internal/filtering/rulelist"
	"github.com/AdguardTeam/AdGuardHome/internal/querylog"
	"github.com/AdguardTeam/AdGuardHome/internal/schedule"
	"github.com/AdguardTeam/AdGuardHome/internal/stats"
	"github.com/AdguardTeam/AdGuardHome/verifsim/env"
	"github.com/AdguardTeam/dnsproxy/proxy"
	"github.com/AdguardTeam/dnsproxy/upstream"
	aghlog "github.com/AdguardTeam/golibs/log"
	"github.com/AdguardTeam/golibs/netutil"
	"github.com/AdguardTeam/golibs/netutil/sysresolv"
	"github.com/miekg/dns"
)

var initOnce sync.Once

// ListSpec is one filter list present at start: its text is written to the
// data directory the way a previous run would have left it.
type ListSpec struct {
	ID      int64
	URL     string
	Name    string
	Text    string
	Enabled bool
}

// Config describes one node.
type Config struct {
	Dir string

	// Filtering.
	Filtering         filtering.Config // template: the fields below override parts of it
	BlockLists        []ListSpec
	AllowLists        []ListSpec
	ListServer        http.RoundTripper
	SafeBrowsing      filtering.Checker
	Parental          filtering.Checker
	InitialClients    []*client.Persistent
	ClientDHCP        client.DHCP
	RuntimeSourceDHCP bool

	// DNS server.
	DNS         dnsforward.Config
	ServerName  string
	StrictSNI   bool
	DHCP        dnsforward.DHCP
	LocalDomain string
	UpTimeout   time.Duration
	Anonymizer  *aghnet.IPMut

	// Query log and statistics: either real instances or recorders.
	QueryLog querylog.QueryLog
	Stats    stats.Interface

	Upstream *env.Upstream

	// OnModified, if set, is called by every ConfigModified callback of the
	// node's components (in home this is where the configuration is collected
	// from all components again and written to disk).
	OnModified func()
	// NoUpdatesLoop leaves the filtering module's updates loop out: the caller
	// runs its body (Filter.VerifDrainInitializer) itself, as a scheduled task.
	NoUpdatesLoop bool
	// PersistedBlock / PersistedAllow are the list entries of a configuration
	// the system itself wrote during an earlier run on the same Dir (a
	// restart): they are handed to the filtering module as they are (ids
	// kept) after the entries of BlockLists / AllowLists, and the files of the
	// data directory are left untouched.
	PersistedBlock, PersistedAllow []filtering.FilterYAML
}

// Node is an assembled node.
type Node struct {
	Cfg     *Config
	Filter  *filtering.DNSFilter
	Clients *client.Storage
	Server  *dnsforward.Server
	Proxy   *proxy.Proxy
	Mux     *env.Mux
	Up      *env.Upstream
	QLog    *RecQueryLog
	Stats   *RecStats

	// FilterConf is the very *filtering.Config that filtering.New was given
	// (and keeps as its own configuration).  Package home hands the same object
	// to Filter.WriteDiskConfig at every configuration save; a harness that
	// wants its saves to be faithful to that does the same.  Unused = a save
	// into a separate object, as before.
	FilterConf *filtering.Config

	Modified atomic.Int64
	seq      atomic.Uint64
	udpConn  *net.UDPConn
}

// noDHCP is the disabled DHCP server.
type noDHCP struct{}

func (noDHCP) HostByIP(netip.Addr) string { return "" }
func (noDHCP) IPByHost(string) netip.Addr { return netip.Addr{} }
func (noDHCP) Enabled() bool              { return false }

// sharedUDP is a UDP socket that is never read or successfully written: the
// UDP responder of dnsproxy insists on a *net.UDPConn; because the socket is
// connected, its addressed write fails inside package net without a system
// call, and the harness judges UDP replies by the response message itself.
var (
	sharedUDPOnce sync.Once
	sharedUDP     *net.UDPConn
)

// InitProcess must be called once per process outside any bubble.
func InitProcess() {
	sharedUDPOnce.Do(func() {
		c, err := net.DialUDP("udp", nil, &net.UDPAddr{IP: net.IPv4(127, 0, 0, 1), Port: 9})
		if err != nil {
			panic(fmt.Errorf("harness: opening loopback udp socket: %w", err))
		}
		sharedUDP = c
		// Package net creates its resolver-configuration semaphore lazily; make
		// that happen here, outside any bubble, so that the channel does not
		// belong to the first case's bubble.
		_, _ = net.DefaultResolver.LookupHost(context.Background(), "localhost")
		_, _ = sysresolv.NewSystemResolvers(nil, 53)
	})
	initOnce.Do(func() {
		filtering.InitModule()
		// The legacy global logger of AdGuard Home writes to stderr.
		aghlog.SetOutput(io.Discard)
		slog.SetDefault(slog.New(slog.DiscardHandler))
	})
}

func writeLists(dir string, lists []ListSpec) (out []filtering.FilterYAML, err error) {
	for _, l := range lists {
		f := filtering.FilterYAML{Enabled: l.Enabled, URL: l.URL, Name: l.Name}
		f.ID = rulelist.URLFilterID(l.ID)
		p := f.Path(dir)
		if err = os.MkdirAll(filepath.Dir(p), 0o755); err != nil {
			return nil, err
		}
		if err = os.WriteFile(p, []byte(l.Text), 0o644); err != nil {
			return nil, err
		}
		out = append(out, f)
	}
	return out, nil
}

// New assembles and starts a node.  It must run inside the bubble.
func New(cfg *Config) (n *Node, err error) {
	InitProcess()
	n = &Node{Cfg: cfg, Mux: env.NewMux(), Up: cfg.Upstream, udpConn: sharedUDP}
	logger := slog.New(slog.DiscardHandler)
	ctx := context.Background()

	// Clients.
	cdhcp := cfg.ClientDHCP
	if cdhcp == nil {
		cdhcp = client.EmptyDHCP{}
	}
	n.Clients, err = client.NewStorage(ctx, &client.StorageConfig{
		Logger:                 logger,
		Clock:                  simClock{},
		DHCP:                   cdhcp,
		InitialClients:         cfg.InitialClients,
		ARPClientsUpdatePeriod: 0,
		RuntimeSourceDHCP:      cfg.RuntimeSourceDHCP,
	})
	if err != nil {
		return nil, fmt.Errorf("harness: client storage: %w", err)
	}

	// Filtering.
	fc := cfg.Filtering
	fc.DataDir = cfg.Dir
	fc.HTTPRegister = n.Mux.Register
	modified := func() {
		n.Modified.Add(1)
		if cfg.OnModified != nil {
			cfg.OnModified()
		}
	}
	fc.ConfigModified = modified
	fc.ApplyClientFiltering = n.Clients.ApplyClientFiltering
	fc.SafeBrowsingChecker = cfg.SafeBrowsing
	fc.ParentalControlChecker = cfg.Parental
	if fc.BlockedServices == nil {
		fc.BlockedServices = &filtering.BlockedServices{Schedule: schedule.EmptyWeekly()}
	}
	if fc.HTTPClient == nil {
		fc.HTTPClient = &http.Client{Transport: cfg.ListServer, Timeout: 30 * time.Second}
	}
	if fc.Filters, err = writeLists(cfg.Dir, cfg.BlockLists); err != nil {
		return nil, err
	}
	if fc.WhitelistFilters, err = writeLists(cfg.Dir, cfg.AllowLists); err != nil {
		return nil, err
	}
	fc.Filters = append(fc.Filters, cfg.PersistedBlock...)
	fc.WhitelistFilters = append(fc.WhitelistFilters, cfg.PersistedAllow...)
	fcp := fc
	n.FilterConf = &fcp
	n.Filter, err = filtering.New(n.FilterConf, nil)
	if err != nil {
		return nil, fmt.Errorf("harness: filtering.New: %w", err)
	}
	n.Filter.SetEnabled(fc.FilteringEnabled)
	// home: EnableFilters(false) before Start.
	n.Filter.EnableFilters(false)
	if cfg.NoUpdatesLoop {
		n.Filter.VerifStartNoLoop()
	} else {
		n.Filter.Start()
	}

	// Query log and statistics.
	ql, st := cfg.QueryLog, cfg.Stats
	if ql == nil {
		n.QLog = &RecQueryLog{}
		ql = n.QLog
	}
	if st == nil {
		n.Stats = &RecStats{}
		st = n.Stats
	}
	dhcp := cfg.DHCP
	if dhcp == nil {
		dhcp = noDHCP{}
	}
	n.Server, err = dnsforward.NewServer(dnsforward.DNSCreateParams{
		Logger:      logger,
		DNSFilter:   n.Filter,
		Stats:       st,
		QueryLog:    ql,
		PrivateNets: netutil.SubnetSetFunc(netutil.IsLocallyServed),
		Anonymizer:  cfg.Anonymizer,
		DHCPServer:  dhcp,
		LocalDomain: cfg.LocalDomain,
	})
	if err != nil {
		n.Filter.Close()
		return nil, fmt.Errorf("harness: NewServer: %w", err)
	}
	dc := cfg.DNS
	dc.ClientsContainer = n.Clients
	if dc.EDNSClientSubnet == nil {
		dc.EDNSClientSubnet = &dnsforward.EDNSClientSubnet{}
	}
	if dc.UpstreamMode == "" {
		dc.UpstreamMode = dnsforward.UpstreamModeLoadBalance
	}
	if len(dc.UpstreamDNS) == 0 {
		dc.UpstreamDNS = []string{"198.51.100.53:53"}
	}
	if len(dc.BootstrapDNS) == 0 {
		dc.BootstrapDNS = []string{"198.51.100.54:53"}
	}
	dnsforward.VerifResetWebRegistered()
	sc := &dnsforward.ServerConfig{
		UDPListenAddrs:  []*net.UDPAddr{{IP: net.IPv4(127, 0, 0, 1), Port: 53}},
		TCPListenAddrs:  []*net.TCPAddr{{IP: net.IPv4(127, 0, 0, 1), Port: 53}},
		Config:          dc,
		TLSConf:         &dnsforward.TLSConfig{ServerName: cfg.ServerName, StrictSNICheck: cfg.StrictSNI},
		UpstreamTimeout: cfg.UpTimeout,
		ConfigModified:  modified,
		HTTPRegister:    n.Mux.Register,
		ServePlainDNS:   true,
		UsePrivateRDNS:  false,
	}
	if err = n.Server.Prepare(sc); err != nil {
		n.Filter.Close()
		return nil, fmt.Errorf("harness: Prepare: %w", err)
	}
	if cfg.Upstream != nil {
		n.Server.VerifSetUpstreams([]upstream.Upstream{cfg.Upstream})
	}
	n.Proxy = n.Server.VerifProxy()
	return n, nil
}

// Close stops every goroutine of the node.
func (n *Node) Close() {
	if n.Server != nil {
		_ = n.Server.Stop()
		n.Server.Close()
	}
	if n.Filter != nil {
		n.Filter.Close()
	}
	if n.Clients != nil {
		_ = n.Clients.Shutdown(context.Background())
	}
}

type simClock struct{}

func (simClock) Now() time.Time { return time.Now() }

// Query is one client request.
type Query struct {
	Proto  string         `json:"proto"` // udp tcp tls https quic dnscrypt
	Addr   netip.AddrPort `json:"addr"`
	Name   string         `json:"name"`
	Qtype  uint16         `json:"qtype"`
	SNI    string         `json:"sni,omitempty"`
	Path   string         `json:"path,omitempty"`
	Host   string         `json:"host,omitempty"`
	NoTLS  bool           `json:"no_tls,omitempty"`
	MsgID  uint16         `json:"id,omitempty"`
	DO     bool           `json:"do,omitempty"`
	RawReq *dns.Msg       `json:"-"`
}

// Reply is what the client observed.
type Reply struct {
	Seq        uint64
	Msg        *dns.Msg // the delivered reply, nil if none
	Writes     int      // number of replies written to the client
	Dropped    bool     // nothing at all was sent to the client
	ConnClosed bool
	HTTPStatus int
	Err        error
	Exchanges  []env.Exchange
	WireErr    error // the delivered bytes did not parse
}

// NewReq builds the request message of q.
func (q *Query) NewReq() *dns.Msg {
	if q.RawReq != nil {
		return q.RawReq.Copy()
	}
	m := new(dns.Msg)
	m.Id = q.MsgID
	if m.Id == 0 {
		m.Id = 0x1234
	}
	m.RecursionDesired = true
	m.Question = []dns.Question{{Name: dns.Fqdn(q.Name), Qtype: q.Qtype, Qclass: dns.ClassINET}}
	if q.DO {
		m.SetEdns0(1232, true)
	}
	return m
}

var serverTCP = netip.MustParseAddrPort("127.0.0.1:853")

// Do pushes one request through the front door and returns what the client
// would have received.
func (n *Node) Do(q *Query) (r *Reply) {
	seq := n.seq.Add(1)
	r = &Reply{Seq: seq}
	if n.Up != nil {
		n.Up.SetSeq(seq)
	}
	upStart := 0
	if n.Up != nil {
		upStart = n.Up.Len()
	}
	req := q.NewReq()
	if q.Proto == "https" {
		n.doHTTPS(q, req, r)
	} else {
		// The context comes from dnsproxy's own constructor, which assigns
		// the RequestID from the proxy's counter exactly as the listeners do
		// (DoH requests get theirs the same way inside ServeHTTP).
		d := proxyNewDNSContext(n.Proxy, proxy.ProtoUDP, req, q.Addr)
		var (
			conn *fakeConn
			qs   *fakeQUICStream
			qc   *fakeQUICConn
			cw   *fakeDNSCryptWriter
		)
		switch q.Proto {
		case "udp":
			d.Proto = proxy.ProtoUDP
			d.Conn = n.udpConn
		case "tcp":
			d.Proto = proxy.ProtoTCP
			conn = &fakeConn{local: tcpAddr(serverTCP), remote: tcpAddr(q.Addr)}
			d.Conn = conn
		case "tls":
			d.Proto = proxy.ProtoTLS
			tc := &fakeTLSConn{fakeConn: fakeConn{local: tcpAddr(serverTCP), remote: tcpAddr(q.Addr)}, serverName: q.SNI}
			conn = &tc.fakeConn
			d.Conn = tc
		case "quic":
			d.Proto = proxy.ProtoQUIC
			d.DoQVersion = proxy.DoQv1
			qc = &fakeQUICConn{serverName: q.SNI, local: udpAddr(serverTCP), remote: udpAddr(q.Addr)}
			qs = &fakeQUICStream{}
			d.QUICConnection = qc
			d.QUICStream = qs
		case "dnscrypt":
			d.Proto = proxy.ProtoDNSCrypt
			cw = &fakeDNSCryptWriter{local: udpAddr(serverTCP), remote: udpAddr(q.Addr)}
			d.DNSCryptResponseWriter = cw
		default:
			r.Err = fmt.Errorf("harness: unknown proto %q", q.Proto)
			return r
		}
		r.Err = proxyHandleDNSRequest(n.Proxy, d)
		switch {
		case q.Proto == "udp":
			// See sharedUDP: judged by the response message.
			if d.Res != nil {
				r.Writes = 1
				r.Msg, r.WireErr = roundTrip(d.Res)
			}
		case conn != nil:
			r.ConnClosed = conn.closed
			r.Msg, r.Writes, r.WireErr = parsePrefixed(conn.buf.Bytes())
		case qs != nil:
			r.ConnClosed = qc.closedWith != nil
			r.Msg, r.Writes, r.WireErr = parsePrefixed(qs.buf.Bytes())
		case cw != nil:
			r.Writes = len(cw.msgs)
			if len(cw.msgs) > 0 {
				r.Msg, r.WireErr = roundTrip(cw.msgs[0])
			}
		}
	}
	r.Dropped = r.Writes == 0 && r.HTTPStatus == 0
	if n.Up != nil {
		r.Exchanges = n.Up.Since(upStart)
	}
	return r
}

func (n *Node) doHTTPS(q *Query, req *dns.Msg, r *Reply) {
	wire, err := req.Pack()
	if err != nil {
		r.Err = err
		return
	}
	path := q.Path
	if path == "" {
		path = "/dns-query"
	}
	hr, err := http.NewRequest(http.MethodGet, "https://placeholder"+"/", nil)
	if err != nil {
		r.Err = err
		return
	}
	hr.URL.Path = path
	hr.URL.RawQuery = "dns=" + base64.RawURLEncoding.EncodeToString(wire)
	hr.Host = q.Host
	hr.RemoteAddr = q.Addr.String()
	hr.RequestURI = path + "?" + hr.URL.RawQuery
	if !q.NoTLS {
		hr.TLS = &tlsState{ServerName: q.SNI, HandshakeComplete: true}
	}
	rec := httptest.NewRecorder()
	n.Server.ServeHTTP(rec, hr)
	r.HTTPStatus = rec.Code
	if rec.Code == http.StatusOK && rec.Header().Get("Content-Type") == "application/dns-message" {
		r.Writes = 1
		m := new(dns.Msg)
		if err = m.Unpack(rec.Body.Bytes()); err != nil {
			r.WireErr = err
		} else {
			r.Msg = m
		}
	}
}

func roundTrip(m *dns.Msg) (*dns.Msg, error) {
	b, err := m.Pack()
	if err != nil {
		return nil, fmt.Errorf("packing reply: %w", err)
	}
	out := new(dns.Msg)
	if err = out.Unpack(b); err != nil {
		return nil, fmt.Errorf("unpacking reply: %w", err)
	}
	return out, nil
}

func parsePrefixed(b []byte) (m *dns.Msg, n int, err error) {
	for len(b) > 0 {
		if len(b) < 2 {
			return m, n, fmt.Errorf("short length prefix")
		}
		l := int(b[0])<<8 | int(b[1])
		if len(b) < 2+l {
			return m, n, fmt.Errorf("truncated message: prefix %d, have %d", l, len(b)-2)
		}
		mm := new(dns.Msg)
		if err = mm.Unpack(b[2 : 2+l]); err != nil {
			return m, n + 1, fmt.Errorf("unpacking reply: %w", err)
		}
		if m == nil {
			m = mm
		}
		n++
		b = b[2+l:]
	}
	return m, n, nil
}

// Sleep advances the simulated clock by d (all due timers of the node fire on
// the way) and waits for quiescence.
func Sleep(d time.Duration) {
	if d > 0 {
		time.Sleep(d)
	}
}

// Itoa is a tiny helper for event logs.
func Itoa(i int) string { return strconv.Itoa(i) }
