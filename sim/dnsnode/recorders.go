package dnsnode

import (
	"context"
	"crypto/tls"
	"sync"

	"github.com/AdguardTeam/AdGuardHome/internal/querylog"
	"github.com/AdguardTeam/AdGuardHome/internal/stats"
	"github.com/miekg/dns"
	"net/netip"
)

type tlsState = tls.ConnectionState

// LoggedQuery is one query-log record seen by the recorder.
type LoggedQuery struct {
	Name     string
	Qtype    uint16
	ClientID string
	ClientIP string
	Proto    string
	Reason   string
	Answer   *dns.Msg
	Orig     *dns.Msg
	Upstream string
	Cached   bool
}

// RecQueryLog is a querylog.QueryLog that records what the DNS server hands
// it (used where the property is about the pipeline, not about the log store).
type RecQueryLog struct {
	mu      sync.Mutex
	Entries []LoggedQuery
	// ShouldLogCalls counts ShouldLog consultations.
	ShouldLogCalls int
}

func (r *RecQueryLog) Start(context.Context) error      { return nil }
func (r *RecQueryLog) Shutdown(context.Context) error   { return nil }
func (r *RecQueryLog) WriteDiskConfig(*querylog.Config) {}
func (r *RecQueryLog) ShouldLog(string, uint16, uint16, []string) bool {
	r.mu.Lock()
	defer r.mu.Unlock()
	r.ShouldLogCalls++
	return true
}

func (r *RecQueryLog) Add(p *querylog.AddParams) {
	r.mu.Lock()
	defer r.mu.Unlock()
	q := p.Question.Question[0]
	e := LoggedQuery{Name: q.Name, Qtype: q.Qtype, ClientID: p.ClientID, ClientIP: p.ClientIP.String(), Proto: string(p.ClientProto), Upstream: p.Upstream, Cached: p.Cached}
	if p.Result != nil {
		e.Reason = p.Result.Reason.String()
	}
	if p.Answer != nil {
		e.Answer = p.Answer.Copy()
	}
	if p.OrigAnswer != nil {
		e.Orig = p.OrigAnswer.Copy()
	}
	r.Entries = append(r.Entries, e)
}

// Len returns the number of records.
func (r *RecQueryLog) Len() int {
	r.mu.Lock()
	defer r.mu.Unlock()
	return len(r.Entries)
}

// Last returns the newest record.
func (r *RecQueryLog) Last() (e LoggedQuery, ok bool) {
	r.mu.Lock()
	defer r.mu.Unlock()
	if len(r.Entries) == 0 {
		return e, false
	}
	return r.Entries[len(r.Entries)-1], true
}

// RecStats is a stats.Interface that records updates.
type RecStats struct {
	mu      sync.Mutex
	Updates []stats.Entry
}

func (s *RecStats) Start()                                            {}
func (s *RecStats) Close() error                                      { return nil }
func (s *RecStats) TopClientsIP(uint) []netip.Addr                    { return nil }
func (s *RecStats) WriteDiskConfig(*stats.Config)                     {}
func (s *RecStats) ShouldCount(string, uint16, uint16, []string) bool { return true }
func (s *RecStats) Update(e *stats.Entry) {
	s.mu.Lock()
	defer s.mu.Unlock()
	s.Updates = append(s.Updates, *e)
}

// Len returns the number of updates.
func (s *RecStats) Len() int {
	s.mu.Lock()
	defer s.mu.Unlock()
	return len(s.Updates)
}
