package dnsnode

// Additions for C16 (ClientID extraction and hand-off): a two-phase,
// goroutine-safe variant of Node.Do in which the request context is created
// the way dnsproxy's listeners create it — by (*Proxy).newDNSContext, which
// draws the RequestID from the proxy's own counter — and handled later,
// possibly from another goroutine and in another order; DoH requests are
// parsed from their wire form by net/http so that the handler sees exactly the
// URL.Path a real HTTP server would hand it; and a reconfiguration that does
// everything Server.Reconfigure does except opening listeners.

import (
	"bufio"
	"encoding/base64"
	"fmt"
	"net/http"
	"net/http/httptest"
	"net/netip"
	"strings"
	_ "unsafe" // for go:linkname

	"github.com/AdguardTeam/dnsproxy/proxy"
	"github.com/AdguardTeam/dnsproxy/upstream"
	"github.com/miekg/dns"
)

// proxyNewDNSContext is the constructor every dnsproxy listener (and
// Proxy.ServeHTTP) uses for a request context; it assigns the RequestID.
//
//go:linkname proxyNewDNSContext github.com/AdguardTeam/dnsproxy/proxy.(*Proxy).newDNSContext
func proxyNewDNSContext(p *proxy.Proxy, proto proxy.Proto, req *dns.Msg, addr netip.AddrPort) *proxy.DNSContext

// Prepared is a request that has been received (its context exists and has
// its RequestID) but not yet handled.
type Prepared struct {
	Q *Query
	// RequestID is the id the proxy assigned; 0 for DoH, whose context is
	// created inside Proxy.ServeHTTP at handling time.
	RequestID uint64
	// DecodedPath is the URL.Path net/http derived from the raw request target
	// (DoH only).
	DecodedPath string
	// BadHTTP is set when net/http cannot parse the request line: a real HTTP
	// server answers 400 before any handler runs.
	BadHTTP bool

	d *proxy.DNSContext
	// px is the proxy instance that received the request (created its
	// context): the one that handles it, also if the server has replaced it by
	// a new one in the meantime.
	px   *proxy.Proxy
	conn *fakeConn
	qs   *fakeQUICStream
	qc   *fakeQUICConn
	cw   *fakeDNSCryptWriter
	hr   *http.Request
}

// Prepare creates the context of q.  For DoH, q.Path is the *raw* (escaped)
// path of the request target, q.Host the Host header / :authority value.
func (n *Node) Prepare(q *Query) (p *Prepared, err error) {
	p = &Prepared{Q: q}
	req := q.NewReq()
	if q.Proto == "https" {
		var wire []byte
		if wire, err = req.Pack(); err != nil {
			return nil, err
		}
		raw := q.Path
		if raw == "" {
			raw = "/dns-query"
		}
		target := raw + "?dns=" + base64.RawURLEncoding.EncodeToString(wire)
		hr, perr := http.ReadRequest(bufio.NewReader(strings.NewReader("GET " + target + " HTTP/1.1\r\nHost: placeholder\r\n\r\n")))
		if perr != nil {
			p.BadHTTP = true
			return p, nil
		}
		hr.Host = q.Host
		hr.RemoteAddr = q.Addr.String()
		if !q.NoTLS {
			hr.TLS = &tlsState{ServerName: q.SNI, HandshakeComplete: true}
		}
		p.hr = hr
		p.DecodedPath = hr.URL.Path
		return p, nil
	}
	var proto proxy.Proto
	switch q.Proto {
	case "udp":
		proto = proxy.ProtoUDP
	case "tcp":
		proto = proxy.ProtoTCP
	case "tls":
		proto = proxy.ProtoTLS
	case "quic":
		proto = proxy.ProtoQUIC
	case "dnscrypt":
		proto = proxy.ProtoDNSCrypt
	default:
		return nil, fmt.Errorf("harness: unknown proto %q", q.Proto)
	}
	p.px = n.Proxy
	d := proxyNewDNSContext(p.px, proto, req, q.Addr)
	p.d, p.RequestID = d, d.RequestID
	switch q.Proto {
	case "udp":
		d.Conn = n.udpConn
	case "tcp":
		p.conn = &fakeConn{local: tcpAddr(serverTCP), remote: tcpAddr(q.Addr)}
		d.Conn = p.conn
	case "tls":
		tc := &fakeTLSConn{fakeConn: fakeConn{local: tcpAddr(serverTCP), remote: tcpAddr(q.Addr)}, serverName: q.SNI}
		p.conn = &tc.fakeConn
		d.Conn = tc
	case "quic":
		d.DoQVersion = proxy.DoQv1
		p.qc = &fakeQUICConn{serverName: q.SNI, local: udpAddr(serverTCP), remote: udpAddr(q.Addr)}
		p.qs = &fakeQUICStream{}
		d.QUICConnection = p.qc
		d.QUICStream = p.qs
	case "dnscrypt":
		p.cw = &fakeDNSCryptWriter{local: udpAddr(serverTCP), remote: udpAddr(q.Addr)}
		d.DNSCryptResponseWriter = p.cw
	}
	return p, nil
}

// Handle pushes a prepared request through the front door.  It may be called
// from any goroutine of the bubble; it does not touch the node's sequence
// counter and leaves Reply.Exchanges empty (callers that overlap requests tell
// exchanges apart by question name).
func (n *Node) Handle(p *Prepared) (r *Reply) {
	r = &Reply{}
	switch {
	case p.BadHTTP:
		r.HTTPStatus = http.StatusBadRequest
	case p.hr != nil:
		rec := httptest.NewRecorder()
		n.Server.ServeHTTP(rec, p.hr)
		r.HTTPStatus = rec.Code
		if rec.Code == http.StatusOK && rec.Header().Get("Content-Type") == "application/dns-message" {
			r.Writes = 1
			m := new(dns.Msg)
			if err := m.Unpack(rec.Body.Bytes()); err != nil {
				r.WireErr = err
			} else {
				r.Msg = m
			}
		}
	default:
		d := p.d
		r.Err = proxyHandleDNSRequest(p.px, d)
		switch {
		case p.Q.Proto == "udp":
			if d.Res != nil {
				r.Writes = 1
				r.Msg, r.WireErr = roundTrip(d.Res)
			}
		case p.conn != nil:
			r.ConnClosed = p.conn.closed
			r.Msg, r.Writes, r.WireErr = parsePrefixed(p.conn.buf.Bytes())
		case p.qs != nil:
			r.ConnClosed = p.qc.closedWith != nil
			r.Msg, r.Writes, r.WireErr = parsePrefixed(p.qs.buf.Bytes())
		case p.cw != nil:
			r.Writes = len(p.cw.msgs)
			if len(p.cw.msgs) > 0 {
				r.Msg, r.WireErr = roundTrip(p.cw.msgs[0])
			}
		}
	}
	r.Dropped = r.Writes == 0 && r.HTTPStatus == 0
	return r
}

// ReconfigureNoListen does what Server.Reconfigure(nil) does (the path taken
// when DNS settings are saved in the admin UI) minus opening listeners, then
// re-installs the simulated upstream and picks up the new proxy.
func (n *Node) ReconfigureNoListen() (err error) {
	if err = n.Server.VerifReconfigureNoListen(); err != nil {
		return fmt.Errorf("harness: reconfigure: %w", err)
	}
	if n.Up != nil {
		n.Server.VerifSetUpstreams([]upstream.Upstream{n.Up})
	}
	n.Proxy = n.Server.VerifProxy()
	return nil
}
