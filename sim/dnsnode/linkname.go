package dnsnode

import (
	_ "unsafe" // for go:linkname

	"github.com/AdguardTeam/dnsproxy/proxy"
)

// proxyHandleDNSRequest is dnsproxy's unexported front door through which all
// six listeners funnel their requests: BeforeRequestHandler (AGH access
// control + ClientID), rate limit, validation, RequestHandler (AGH pipeline)
// and respond.
//
//go:linkname proxyHandleDNSRequest github.com/AdguardTeam/dnsproxy/proxy.(*Proxy).handleDNSRequest
func proxyHandleDNSRequest(p *proxy.Proxy, d *proxy.DNSContext) error
