#!/bin/sh
# Offline setup: warm the Go build cache for the harness (std lib of go1.26.8,
# /repo with the "verif" tag — for the properties that ask for it, its
# yield-instrumented scratch copy —, harness packages).  Nothing is downloaded.
set -e
cd "$(dirname "$0")"
export GOFLAGS=-mod=mod GOPROXY=off GOSUMDB=off GOTOOLCHAIN=local
python3 - <<'PY'
import importlib.machinery, importlib.util, os, shutil, sys, tempfile
loader = importlib.machinery.SourceFileLoader("check", os.path.join(os.getcwd(), "check"))
spec = importlib.util.spec_from_loader("check", loader)
m = importlib.util.module_from_spec(spec); loader.exec_module(m)
m.sync_gosum()
status = 0
base = os.environ.get("VERIF_SCRATCH", "/dev/shm")
for pid in sorted(m.PROPS):
    c = m.cfg(pid)
    if not c.get("registered"):
        continue
    scratch = tempfile.mkdtemp(prefix="verif-setup-%s-" % pid, dir=base)
    try:
        m.build(pid, c, scratch)
    except SystemExit:
        print("setup: building %s failed" % pid, file=sys.stderr)
        status = 1
    finally:
        shutil.rmtree(scratch, ignore_errors=True)
sys.exit(status)
PY
