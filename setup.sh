#!/bin/sh
# Offline setup: warm the Go build cache for the harness (std lib of go1.26.8,
# /repo with the "verif" tag, harness packages).  Nothing is downloaded.
set -e
cd "$(dirname "$0")"
export GOFLAGS=-mod=mod GOPROXY=off GOSUMDB=off GOTOOLCHAIN=local
python3 - <<'PY'
import importlib.machinery, importlib.util, os
loader = importlib.machinery.SourceFileLoader("check", os.path.join(os.getcwd(), "check"))
spec = importlib.util.spec_from_loader("check", loader)
m = importlib.util.module_from_spec(spec); loader.exec_module(m)
m.sync_gosum()
PY
cd sim
out=$(mktemp -d /dev/shm/verif-setup-XXXXXX)
trap 'rm -rf "$out"' EXIT
status=0
for d in props/*/; do
    p=$(basename "$d")
    # Only registered properties (entry.json with "registered": true) are built.
    grep -qs '"registered": *true' "$d/entry.json" || continue
    race=""
    if grep -q '"race": *true' "$d/entry.json"; then race="-race"; fi
    if ! go1.26.8 test -c -tags verif $race -o "$out/$p.test" "./props/$p/" ; then
        echo "setup: building props/$p failed" >&2
        status=1
    fi
done
exit $status
