#!/usr/bin/env python3
"""Regenerates /verif/MANIFEST.json from props.json (claimed checks) and
not_applicable.json.  Run after editing either."""
import json, os, subprocess
V = os.path.dirname(os.path.dirname(os.path.abspath(__file__)))
import glob
props = {}
for path in sorted(glob.glob(os.path.join(V, "sim", "props", "*", "entry.json"))):
    e = json.load(open(path))
    if not e.get("registered"):
        continue  # still under construction / not validated yet
    props[e.get("id", os.path.basename(os.path.dirname(path)).upper())] = e
na = json.load(open(os.path.join(V, "not_applicable.json")))
listed = {x["property_id"] for x in na}
for line in open(os.path.join(V, "properties.jsonl")):
    pid = json.loads(line)["id"]
    if pid not in props and pid not in listed:
        na.append({"property_id": pid, "reason": "not claimed yet: the simulation engine for this property is still under construction (DESIGN.md §4); nothing is registered until its check runs clean on the unchanged tree."})
na.sort(key=lambda x: x["property_id"])
hooks = subprocess.run(["git", "-C", "/repo", "log", "--format=%H %s", "--grep=^verif:"], capture_output=True, text=True).stdout.split("\n")
hook_commits = [l.split(" ", 1)[0] for l in hooks if l.strip()]
checks = []
for pid in sorted(props):
    p = props[pid]
    checks.append({
        "property_id": pid,
        "quick_cmd": "./check %s quick" % pid,
        "thorough_cmd": "./check %s thorough" % pid,
        "evidence_file": "evidence/%s.json" % pid,
        "replay_cmd_template": "./check %s --replay {path}" % pid,
        "engine": p.get("engine", ""),
        "level_claimed": {"category": p.get("level", "exploration"), "text": p["level_text"], "design_ref": p.get("design_ref", "DESIGN.md §4/" + pid)},
        "level_note": p["level_note"],
        "technique": p.get("technique", "deterministic simulation with fault injection: seeded (rapid) histories against the real components under a synctest fake clock, reference-model oracle, shrinking + exact replay"),
    })
engines = {}
for pid, p in props.items():
    e = p.get("engine")
    if e:
        engines.setdefault(e, []).append(pid)
m = {
    "version": 1,
    "setup_cmd": "./setup.sh",
    "hooks": {
        "guard": "verif",
        "enable": "cd /verif/sim && GOFLAGS=-mod=mod GOPROXY=off GOSUMDB=off GOTOOLCHAIN=local go1.26.8 test -c -tags verif ./props/<id>/   (Go build tag 'verif'; hook files are /repo/internal/*/verif_hooks*.go and the seam package /repo/internal/verifyield, whose call sites exist only in the scratch copy made by tools/yieldify.py)",
        "baseline_off_cmd": "cd /repo && GOFLAGS=-mod=mod GOPROXY=off GOSUMDB=off go test -json -vet=off -count=1 -timeout 25m ./...",
        "source_commits": hook_commits,
        "add_only": True,
    },
    "engines": [{"name": e, "path": "sim/props", "serves_properties": sorted(ps), "kind_free_text": "deterministic simulation (synctest bubble + seeded rapid scenarios + reference model)"} for e, ps in sorted(engines.items())],
    "checks": checks,
    "not_applicable": na,
    "notes": "All checks are driven by ./check (Python) which rebuilds the property's Go test binary from /repo's working tree with -tags verif using go1.26.8, fans out worker processes seeded from VERIF_SEED, merges their counters into evidence/<id>.json, confirms every violation by replaying its minimised scenario in a fresh process, and matches known_findings.jsonl.",
}
json.dump(m, open(os.path.join(V, "MANIFEST.json"), "w"), indent=1)
print("MANIFEST.json: %d checks, %d not applicable" % (len(checks), len(na)))
