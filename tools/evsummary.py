#!/usr/bin/env python3
"""Prints one line per /tmp/evres/*-<tag>-*.json result."""
import glob, json, sys
tag = sys.argv[1] if len(sys.argv) > 1 else "w2"
for f in sorted(glob.glob("/tmp/evres/*-%s-*.json" % tag)):
    t = open(f).read()
    i = t.find('{\n "property"')
    if i < 0:
        print(f.split("/")[-1], "PENDING/ERR", t[-200:].replace("\n", " "))
        continue
    r = json.loads(t[i:])
    flags = "".join("Y" if r.get(k) else "n" for k in ("applies", "builds", "suite_passes_with_change", "demo_fails_with_change", "demo_passes_without"))
    print("%-14s confirmed=%-5s [%s] caught=%-5s rc=%s %ss %s" % (f.split("/")[-1][:-5], r.get("confirmed"), flags, r.get("caught_quick"), r.get("check_quick_rc"), r.get("check_quick_s"), (r.get("check_quick_classes") or [])[:3]))
