#!/bin/sh
# usage: tools/mkwt.sh /tmp/wt-x   — scratch worktree of /repo HEAD plus the
# not-yet-committed verif hook files.  Remove with:
#   git -C /repo worktree remove --force /tmp/wt-x
set -e
git -C /repo worktree add -q "$1" HEAD
cd /repo
git ls-files --others --exclude-standard | grep 'verif_hooks' | while read -r f; do
    mkdir -p "$1/$(dirname "$f")"; cp "$f" "$1/$f"
done
