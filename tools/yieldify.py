#!/usr/bin/env python3
"""Makes a scratch copy of an AdGuardHome tree in which every mutex acquisition
goes through the verifyield seam.

usage: tools/yieldify.py <src-repo> <dst-dir>

The copy holds only what a harness build needs (go.mod, go.sum, internal/, and
the few top-level packages internal/ imports); .git, client/ and build output
are left out.  In every non-test Go file under internal/ a statement

    x.Lock()        becomes   verifyield.Acquire(x.TryLock, x.Lock, "x")
    x.RLock()       becomes   verifyield.AcquireR(x.TryRLock, x.RLock, "x")
    [defer] x.Unlock() / x.RUnlock()   become   [defer] verifyield.Release(x.Unlock) / (x.RUnlock)
    time.Sleep(d)   becomes   verifyield.Sleep(d)
    go func() { ... }() / go x.m()   become   verifyield.Go(func() { ... }) / verifyield.Go(x.m)

(only whole-statement calls; `defer`, sync.Locker values such as cond.L, and
the seam package itself are left alone).  With verifyield.Hook unset the
rewritten statement performs exactly the original blocking call, so every
other mode of the harness behaves on the copy as it does on the original.
Prints the number of rewritten sites.
"""
import os
import re
import shutil
import sys

SITE = re.compile(r"^(?P<ind>[ \t]*)(?P<recv>[A-Za-z_][\w\.]*(?:\(\))?(?:\.[\w]+)*)\.(?P<m>R?Lock)\(\)[ \t]*(?P<tail>//.*)?$", re.M)
SKIP_RECV = re.compile(r"(^|\.)L$")  # sync.Locker (cond.L): no TryLock
UNSITE = re.compile(r"^(?P<ind>[ \t]*)(?P<defer>defer )?(?P<recv>[A-Za-z_][\w\.]*(?:\(\))?(?:\.[\w]+)*)\.(?P<m>R?Unlock)\(\)[ \t]*(?P<tail>//.*)?$", re.M)
IMPORT = 'import "github.com/AdguardTeam/AdGuardHome/internal/verifyield"\n'


def rewrite(text):
    n = 0

    def sub(m):
        nonlocal n
        recv = m.group("recv")
        if SKIP_RECV.search(recv):
            return m.group(0)
        n += 1
        meth = m.group("m")
        tail = (" " + m.group("tail")) if m.group("tail") else ""
        fn = "AcquireR" if meth == "RLock" else "Acquire"
        return '%sverifyield.%s(%s.Try%s, %s.%s, "%s")%s' % (m.group("ind"), fn, recv, meth, recv, meth, recv, tail)

    out = SITE.sub(sub, text)

    def unsub(m):
        nonlocal n
        recv = m.group("recv")
        if SKIP_RECV.search(recv):
            return m.group(0)
        n += 1
        tail = (" " + m.group("tail")) if m.group("tail") else ""
        return "%s%sverifyield.Release(%s.%s)%s" % (m.group("ind"), m.group("defer") or "", recv, m.group("m"), tail)

    out = UNSITE.sub(unsub, out)
    # go statements without arguments become verifyield.Go.
    lines = out.split("\n")
    i = 0
    while i < len(lines):
        m = re.match(r"^([ \t]*)go func\(\) \{$", lines[i])
        if m:
            ind = m.group(1)
            for j in range(i + 1, len(lines)):
                if lines[j] == ind + "}()":
                    lines[i] = ind + "verifyield.Go(func() {"
                    lines[j] = ind + "})"
                    n += 1
                    break
                if lines[j].startswith(ind + "}"):
                    break
        else:
            m = re.match(r"^([ \t]*)go ([A-Za-z_][\w\.]*)\(\)$", lines[i])
            if m:
                lines[i] = "%sverifyield.Go(%s)" % (m.group(1), m.group(2))
                n += 1
        i += 1
    out = "\n".join(lines)
    k = out.count("time.Sleep(")
    if k:
        out = out.replace("time.Sleep(", "verifyield.Sleep(") + "\nvar _ = time.Second\n"
        n += k
    if n:
        out, k = re.subn(r"^(package \w+[^\n]*\n)", lambda m: m.group(1) + "\n" + IMPORT, out, count=1, flags=re.M)
        if k != 1:
            raise SystemExit("no package clause")
    return out, n


def main():
    src, dst = sys.argv[1], sys.argv[2]
    if os.path.exists(dst):
        shutil.rmtree(dst)
    os.makedirs(dst)
    for f in ("go.mod", "go.sum"):
        shutil.copy(os.path.join(src, f), os.path.join(dst, f))
    # Everything Go outside client/ and .git: small (a few MB).
    total = 0
    files = 0
    for root, dirs, names in os.walk(src):
        rel = os.path.relpath(root, src)
        dirs[:] = [d for d in dirs if not (rel == "." and d in (".git", "client", "node_modules", "dist", "bin", "scripts", "doc", "docker", "snap", ".github"))]
        for name in names:
            p = os.path.join(root, name)
            q = os.path.join(dst, rel, name)
            if rel == "." and name in ("go.mod", "go.sum"):
                continue
            if os.path.islink(p) or not os.path.isfile(p):
                continue
            if os.path.getsize(p) > 4 << 20:
                continue
            os.makedirs(os.path.dirname(q), exist_ok=True)
            if (name.endswith(".go") and not name.endswith("_test.go") and rel.startswith("internal")
                    and "verifyield" not in rel):
                text = open(p, encoding="utf-8").read()
                out, n = rewrite(text)
                if n:
                    total += n
                    files += 1
                open(q, "w", encoding="utf-8").write(out)
            else:
                shutil.copy(p, q)
    print("yieldify: %d sites in %d files" % (total, files))


if __name__ == "__main__":
    main()
