#!/bin/sh
# usage: tools/evalqueue.sh <tag> <srcroot> ID:n [ID:n ...]  — evaluates seeded changes one after another.
tag=$1; root=$2; shift 2
mkdir -p /tmp/evres
cd "$(dirname "$0")/.."
for x in "$@"; do
	id=${x%%:*}; n=${x##*:}
	python3 tools/evalmut.py "$id" "$n" --src "$root/$id-out" --tag "$tag" > "/tmp/evres/$id-$tag-$n.json" 2> "/tmp/evres/$id-$tag-$n.err"
done
