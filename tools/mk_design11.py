#!/usr/bin/env python3
"""Prints the markdown table of the seeded changes whose directory name matches
the given tag ("" = first wave, "w2", "w3"), from seeded/*/meta.json and
seeded/NOTES.json."""
import glob, json, os, re, sys
V = os.path.dirname(os.path.dirname(os.path.abspath(__file__)))
tag = sys.argv[1] if len(sys.argv) > 1 else ""
notes = json.load(open(os.path.join(V, "seeded", "NOTES.json")))
rows = []
for d in sorted(glob.glob(os.path.join(V, "seeded", "C*"))):
    name = os.path.basename(d)
    m = re.match(r"^(C\d\d)-(?:(w\d)-)?(\d+)$", name)
    if not m or (m.group(2) or "") != tag:
        continue
    meta = json.load(open(os.path.join(d, "meta.json")))
    cr = meta.get("check_result", {})
    if cr.get("caught_by_quick"):
        cls = sorted(set(re.split(r"[ :]", c)[0] if not c.startswith(("race", "deadlock")) else c[:60] for c in cr.get("classes", [])))
        res = "quick: " + ", ".join(cls[:4])
    elif cr.get("caught_by_other"):
        res = "caught by " + cr["caught_by_other"]
    else:
        res = "**not caught**"
    summ = " ".join(meta.get("breaks", "").split())[:230].replace("|", "/")
    rows.append("| %s | %s | %s | %s |" % (name, summ, res, notes.get(name, cr.get("note", "")).replace("|", "/")))
print("| id | change (author's summary) | result | note |\n|----|----|----|----|")
print("\n".join(rows))
caught = sum(1 for r in rows if "| quick:" in r)
print("\n%d changes, %d caught by their own quick check" % (len(rows), caught), file=sys.stderr)
