#!/usr/bin/env python3
"""Confirms one seeded change and runs the property's check against it.

usage: tools/evalmut.py <ID> <n> [--src /tmp/mut/<ID>-out] [--thorough]

Steps (all in a fresh scratch worktree of /repo HEAD, removed afterwards):
 1. apply change<n>.diff; go build ./... ; go vet ./internal/... ; go test ./internal/...
    (the existing suite must stay green with the change);
 2. copy demo<n>/ in and run its RUN.txt command: must FAIL with the change;
 3. revert the change, keep the demo: must PASS;
 4. re-apply the change, drop the demo, run `VERIF_REPO=<wt> ./check <ID> quick`
    (and, if it misses, thorough with a capped budget when --thorough is given);
 5. store /verif/seeded/<ID>-<n>/{patch.diff, demo/, meta.json}.
"""
import json
import os
import re
import shutil
import subprocess
import sys
import time

V = os.path.dirname(os.path.dirname(os.path.abspath(__file__)))
# The repository's own toolchain (go 1.24.2, reached by the default `go` through
# its cached toolchain switch, which needs GOSUMDB left alone).
ENV = dict(os.environ, GOFLAGS="-mod=mod", GOPROXY="off")
ENV.pop("GOSUMDB", None)


def sh(cmd, cwd, timeout=1800, env=ENV):
    r = subprocess.run(cmd, cwd=cwd, shell=True, env=env, stdout=subprocess.PIPE, stderr=subprocess.STDOUT, text=True, timeout=timeout)
    return r.returncode, r.stdout


def recheck(name):
    """--recheck <seeded-dir-name>: re-runs only the property's quick check
    against an already confirmed seeded change and refreshes its meta.json."""
    d = os.path.join(V, "seeded", name)
    meta = json.load(open(os.path.join(d, "meta.json")))
    pid = meta["property"]
    wt = "/tmp/ev-re-%s-%d" % (name, os.getpid())
    subprocess.check_call([os.path.join(V, "tools", "mkwt.sh"), wt], stdout=subprocess.DEVNULL, stderr=subprocess.DEVNULL)
    try:
        rc, out = sh("git apply --whitespace=nowarn %s" % os.path.join(d, "patch.diff"), wt)
        if rc != 0:
            print(name, "PATCH-DOES-NOT-APPLY", out[-300:])
            return
        t0 = time.time()
        rc, out = sh("./check %s quick" % pid, V, timeout=3600, env=dict(os.environ, VERIF_REPO=wt))
        caught = rc == 1 and "VIOLATION property=%s" % pid in out
        classes = sorted(set(re.findall(r"^  class=(\S.*?)(?: op | after |:| \w+=|$)", out, re.M)))[:8]
        classes = sorted(set(c[:90] for c in classes))
        cr = meta.setdefault("check_result", {})
        cr.update({"quick_exit": rc, "caught_by_quick": caught, "quick_wall_s": round(time.time() - t0, 1), "classes": classes})
        if caught:
            cr.pop("note", None)
        json.dump(meta, open(os.path.join(d, "meta.json"), "w"), indent=1)
        print("%-12s caught=%s rc=%d %.0fs %s" % (name, caught, rc, time.time() - t0, classes[:3]))
    finally:
        subprocess.call(["git", "-C", "/repo", "worktree", "remove", "--force", wt], stdout=subprocess.DEVNULL, stderr=subprocess.DEVNULL)


def main():
    if sys.argv[1] == "--recheck":
        for name in sys.argv[2:]:
            recheck(name)
        return
    pid, n = sys.argv[1], sys.argv[2]
    src = "/tmp/mut/%s-out" % pid
    if "--src" in sys.argv:
        src = sys.argv[sys.argv.index("--src") + 1]
    thorough = "--thorough" in sys.argv
    tag = sys.argv[sys.argv.index("--tag") + 1] if "--tag" in sys.argv else ""
    diff = os.path.join(src, "change%s.diff" % n)
    demo = os.path.join(src, "demo%s" % n)
    meta_in = {}
    if os.path.exists(os.path.join(src, "meta%s.json" % n)):
        try:
            meta_in = json.load(open(os.path.join(src, "meta%s.json" % n)))
        except ValueError:
            meta_in = {"unparsable_meta": True}
    wt = "/tmp/ev-%s-%s-%d" % (pid, n, os.getpid())
    res = {"property": pid, "n": n, "tag": tag, "author_meta": meta_in}
    subprocess.check_call([os.path.join(V, "tools", "mkwt.sh"), wt])
    try:
        rc, out = sh("git apply --whitespace=nowarn %s" % diff, wt)
        res["applies"] = rc == 0
        if rc != 0:
            res["error"] = out[-2000:]
            return finish(res, src, n, diff, demo)
        changed = sh("git diff --stat | tail -1", wt)[1].strip()
        res["diffstat"] = changed
        rc, out = sh("go build ./... && go vet ./internal/...", wt)
        res["builds"] = rc == 0
        if rc != 0:
            res["error"] = out[-2000:]
            return finish(res, src, n, diff, demo)
        rc, out = sh("go test -count=1 ./... 2>&1 | tail -40", wt, timeout=3600)
        res["suite_passes_with_change"] = "FAIL" not in out and rc == 0
        if not res["suite_passes_with_change"]:
            res["suite_output"] = out[-3000:]
        # demonstration
        run = None
        if os.path.isdir(demo):
            for root, _, files in os.walk(demo):
                for f in files:
                    if f == "RUN.txt":
                        continue
                    rel = os.path.relpath(os.path.join(root, f), demo)
                    os.makedirs(os.path.dirname(os.path.join(wt, rel)) or wt, exist_ok=True)
                    shutil.copy(os.path.join(root, f), os.path.join(wt, rel))
            rp = os.path.join(demo, "RUN.txt")
            if os.path.exists(rp):
                lines = [l.strip() for l in open(rp) if l.strip() and not l.strip().startswith("#")]
                # Drop "cd <repo>" placeholders and environment preambles; keep
                # the line that actually runs the demonstration.
                lines = [re.sub(r"^cd\s+<[^>]*>\s*(&&|;)?\s*", "", l) for l in lines]
                lines = [re.sub(r"^cd\s+\S*(repo|worktree|REPO)\S*\s*(&&|;)\s*", "", l) for l in lines]
                cands = [l for l in lines if re.search(r"\bgo (test|run|build)\b", l)]
                run = (cands or [l for l in lines if l] or [None])[0]
        res["demo_cmd"] = run
        if run:
            run = re.sub(r"/tmp/mut/%s\b" % pid, wt, run)
            run = run.replace("GOSUMDB=off", "GOSUMDB=")
            rc1, out1 = sh(run, wt, timeout=1800)
            res["demo_fails_with_change"] = rc1 != 0
            sh("git apply -R --whitespace=nowarn %s" % diff, wt)
            rc2, out2 = sh(run, wt, timeout=1800)
            res["demo_passes_without"] = rc2 == 0
            if rc1 == 0 or rc2 != 0:
                res["demo_output_with"] = out1[-1500:]
                res["demo_output_without"] = out2[-1500:]
            sh("git apply --whitespace=nowarn %s" % diff, wt)
            # remove demo files again
            sh("git clean -fdq -e 'verif_hooks*.go'", wt)
        # our check
        env = dict(os.environ, VERIF_REPO=wt)
        t0 = time.time()
        rc, out = sh("./check %s quick" % pid, V, timeout=3600, env=env)
        res["check_quick_rc"] = rc
        res["check_quick_s"] = round(time.time() - t0, 1)
        res["check_quick_classes"] = sorted(set(re.findall(r"^  class=(\S.*?)(?: op | after |:| \w+=|$)", out, re.M)))[:8]
        res["check_quick_tail"] = "\n".join(l[:300] for l in out.strip().splitlines()[-8:])
        res["caught_quick"] = rc == 1 and "VIOLATION property=%s" % pid in out
        if not res["caught_quick"] and thorough:
            env2 = dict(env, VERIF_BUDGET_S="300", VERIF_WORKERS="10")
            rc, out = sh("./check %s thorough" % pid, V, timeout=7200, env=env2)
            res["check_thorough_rc"] = rc
            res["caught_thorough"] = rc == 1 and "VIOLATION property=%s" % pid in out
            res["check_thorough_tail"] = "\n".join(l[:300] for l in out.strip().splitlines()[-8:])
        return finish(res, src, n, diff, demo)
    finally:
        subprocess.call(["git", "-C", "/repo", "worktree", "remove", "--force", wt])


def finish(res, src, n, diff, demo):
    pid = res["property"]
    ok = res.get("applies") and res.get("builds") and res.get("suite_passes_with_change") and res.get("demo_fails_with_change") and res.get("demo_passes_without")
    res["confirmed"] = bool(ok)
    d = os.path.join(V, "seeded", "%s-%s%s" % (pid, (res.get("tag") + "-") if res.get("tag") else "", n))
    if ok:
        shutil.rmtree(d, ignore_errors=True)
        os.makedirs(d)
        shutil.copy(diff, os.path.join(d, "patch.diff"))
        if os.path.isdir(demo):
            shutil.copytree(demo, os.path.join(d, "demo"))
        am = res.get("author_meta", {})
        meta = {
            "property": pid,
            "breaks": am.get("summary", ""),
            "needs_to_manifest": am.get("needs_to_manifest", ""),
            "files": am.get("files", []),
            "confirmed_by_main": {
                "applies_to_repo_head": True, "go_build_and_vet": True, "existing_suite_passes_with_change": True,
                "demo_cmd": res.get("demo_cmd"), "demo_fails_with_change": True, "demo_passes_without": True,
            },
            "check_result": {
                "quick_exit": res.get("check_quick_rc"), "caught_by_quick": res.get("caught_quick"), "quick_wall_s": res.get("check_quick_s"),
                "classes": res.get("check_quick_classes"), "caught_by_thorough": res.get("caught_thorough"),
            },
            "ran": "tools/evalmut.py %s %s%s" % (pid, n, (" --tag " + res["tag"]) if res.get("tag") else ""),
        }
        json.dump(meta, open(os.path.join(d, "meta.json"), "w"), indent=1)
    print(json.dumps(res, indent=1))


if __name__ == "__main__":
    main()
